import UbxModel.Proofs.ParserComplete
import UbxModel.Proofs.ParserQueue
namespace Ubx

/-- parsing only appends to the queue -/
theorem process_appends (p : Parser) (bs : List Nat) : ∃ app, (p.process bs).queue = p.queue ++ app := by
  obtain ⟨app, h, -⟩ := process_with_queue p p.queue bs
  exact ⟨app, h⟩

/-- hence the queue after a prefix of the input is a prefix of the queue after all of it -/
theorem queue_prefix (p : Parser) (xs ys : List Nat) :
    ∃ app, (p.process (xs ++ ys)).queue = (p.process xs).queue ++ app := by
  rw [Parser.process_append]
  exact process_appends (p.process xs) ys

/-- all of a frame-shaped sequence but its last byte: nothing is queued yet, the parser waits in `CRC2` -/
theorem process_frame_butlast (p : Parser) (h : p.hunting) (cls id : Nat) (pl : List Nat) (a : Nat)
    (hlen : pl.length ≤ MAXLEN) :
    let p' := p.process ([0xB5, 0x62] ++ ([cls, id, pl.length % 256, pl.length / 256] ++ (pl ++ [a])))
    p'.st = .crc2 ∧ p'.queue = p.queue := by
  have hl2 : pl.length % 256 + pl.length / 256 * 256 = pl.length := by omega
  have hsync : ∃ p0 : Parser, p.process [0xB5, 0x62] = { p0.reset with st := .cls } ∧ p0.queue = p.queue := by
    rcases h with h | h
    · exact ⟨{ p with st := .sync }, by simp [Parser.process, Parser.step, h]⟩
    · exact ⟨p, by simp [Parser.process, Parser.step, h]⟩
  obtain ⟨p0, hp0, hq⟩ := hsync
  intro p'
  simp only [p', Parser.process_append, hp0]
  by_cases hpl : pl = []
  · subst hpl
    simp [Parser.process, Parser.step, Parser.reset, hq]
  · have hpos : 0 < pl.length := List.length_pos_iff.mpr hpl
    have hmax : ¬ (pl.length > MAXLEN) := by omega
    have hne0 : ¬ (pl.length = 0) := by omega
    have hhdr : ({ p0.reset with st := .cls } : Parser).process [cls, id, pl.length % 256, pl.length / 256] =
        { p0.reset with
            st := St.data
            msgClass := cls
            msgId := id
            msgLen := pl.length
            ofs := 0
            ck := Ck.zero.addAll [cls, id, pl.length % 256, pl.length / 256] } := by
      simp [Parser.process, Parser.step, Parser.reset, hl2, hmax, hne0, Ck.addAll, Ck.reset]
    rw [hhdr, Parser.process_data _ pl rfl (by simp) hpl]
    simp [Parser.process, step_crc1, Parser.reset, hq]

end Ubx

namespace Ubx

/-- a stream of items without trailing filler leaves the parser in `INIT` -/
theorem Parser.process_items_init (p : Parser) (hst : p.st = .init) (items : List Item)
    (hok : ∀ it ∈ items, it.ok) :
    let p' := p.process (items.flatMap Item.bytes)
    p'.st = .init ∧ p'.filter = p.filter ∧ p'.queue = p.queue ++ expectedPackets p.filter items := by
  induction items generalizing p with
  | nil => simp [Parser.process, expectedPackets, hst]
  | cons it rest ih =>
    obtain ⟨b1, b2, b3, -⟩ := p.process_item hst it (hok it (by simp))
    obtain ⟨h1, h2, h3⟩ := ih (p.process it.bytes) b1 (fun i hi => hok i (by simp [hi]))
    simp only [List.flatMap_cons, Parser.process_append] at h1 h2 h3 ⊢
    refine ⟨h1, by rw [h2, b2], ?_⟩
    rw [h3, b2, b3]; simp [expectedPackets, List.append_assoc]

end Ubx

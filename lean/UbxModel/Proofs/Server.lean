import UbxModel.Model.Server
namespace Ubx

/-- a bound on how long a single receive can take -/
def Env.rxBound (env : Env) (T : Nat) : Prop := 1 ≤ T ∧ ∀ j, (env.rx j).1 ≤ T

/-- what one `_wait()` does to the log: bounded time, no transmission, at most one receive per tick -/
structure WaitLog (T deadline : Nat) (lg lg' : Log) : Prop where
  upper : lg'.now ≤ max lg.now (deadline + T)
  mono : lg.now ≤ lg'.now
  sent : lg'.sent = lg.sent
  steps : lg'.nRx - lg.nRx ≤ lg'.now - lg.now
  rxmono : lg.nRx ≤ lg'.nRx

theorem wait_log (env : Env) (reg : Registry) (T : Nat) (hT : env.rxBound T)
    (deadline : Nat) (p : Parser) (lg : Log) :
    WaitLog T deadline lg (wait env reg deadline p lg).2.2 := by
  fun_induction wait env reg deadline p lg with
  | case1 p lg hlt r lg' p1 f q hd =>
    have := hT.2 lg.nRx
    have := hT.1
    constructor <;> simp only [lg', tick, r] <;> omega
  | case2 p lg hlt r lg' p1 q hd ih =>
    have hr := hT.2 lg.nRx
    have h1T := hT.1
    obtain ⟨h1, h2, h3, h4, h5⟩ := ih
    have e1 : lg'.now = lg.now + max 1 (env.rx lg.nRx).1 := rfl
    have e2 : lg'.nRx = lg.nRx + 1 := rfl
    have e3 : lg'.sent = lg.sent := rfl
    rw [e1] at h1 h2 h4; rw [e2] at h4 h5; rw [e3] at h3
    constructor
    · omega
    · omega
    · exact h3
    · omega
    · omega
  | case3 p lg hnl => constructor <;> simp <;> omega

theorem flushSend_log (env : Env) (lg : Log) (bytes : List Nat) :
    (flushSend env lg bytes).2.now = lg.now ∧ (flushSend env lg bytes).2.nRx = lg.nRx ∧
    (flushSend env lg bytes).2.sent = lg.sent ++ [bytes] := ⟨rfl, rfl, rfl⟩

/-- **C05 for `set()`**: at most `n` transmissions, all of the same bytes, and at most `n` waiting
    periods of `delay + T` ticks -/
theorem setLoop_bounds (env : Env) (reg : Registry) (T : Nat) (hT : env.rxBound T) (delay : Nat) (req : Req)
    (n : Nat) (p : Parser) (lg : Log) :
    let r := setLoop env reg delay req n p lg
    r.2.2.now ≤ lg.now + n * (delay + T) ∧ lg.now ≤ r.2.2.now ∧
    (∃ k, k ≤ n ∧ r.2.2.sent = lg.sent ++ List.replicate k req.wire) ∧
    r.2.2.nRx - lg.nRx ≤ r.2.2.now - lg.now ∧ lg.nRx ≤ r.2.2.nRx := by
  induction n generalizing p lg with
  | zero => simp [setLoop]
  | succ n ih =>
    simp only [setLoop]
    cases hok : (flushSend env lg req.wire).1
    · -- transmission failed: next attempt at once
      simp only [Bool.false_eq_true, if_false]
      obtain ⟨a1, a2, ⟨k, hk, a3⟩, a4, a5⟩ := ih p (flushSend env lg req.wire).2
      obtain ⟨f1, f2, f3⟩ := flushSend_log env lg req.wire
      rw [f1] at a1 a2 a4; rw [f2] at a4 a5; rw [f3] at a3
      refine ⟨?_, a2, ⟨k + 1, by omega, ?_⟩, a4, a5⟩
      · rw [Nat.succ_mul]; omega
      · rw [a3, List.replicate_succ]; simp
    · simp only [if_true]
      obtain ⟨f1, f2, f3⟩ := flushSend_log env lg req.wire
      have hw := wait_log env reg T hT ((flushSend env lg req.wire).2.now + delay) p.emptyQueue.restart
        (flushSend env lg req.wire).2
      generalize hres : wait env reg ((flushSend env lg req.wire).2.now + delay) p.emptyQueue.restart
        (flushSend env lg req.wire).2 = res at hw
      obtain ⟨fo, p2, lg2⟩ := res
      obtain ⟨w1, w2, w3, w4, w5⟩ := hw
      simp only at w1 w2 w3 w4 w5
      rw [f1] at w1 w2 w4; rw [f2] at w4 w5; rw [f3] at w3
      have hdone : lg2.now ≤ lg.now + (n + 1) * (delay + T) ∧ lg.now ≤ lg2.now ∧
          (∃ k, k ≤ n + 1 ∧ lg2.sent = lg.sent ++ List.replicate k req.wire) ∧
          lg2.nRx - lg.nRx ≤ lg2.now - lg.now ∧ lg.nRx ≤ lg2.nRx := by
        refine ⟨?_, w2, ⟨1, by omega, by rw [w3]; rfl⟩, w4, w5⟩
        rw [Nat.succ_mul]
        have : 0 ≤ n * (delay + T) := Nat.zero_le _
        omega
      have hnext : ∀ (lgx : Log), lgx.now = lg2.now → lgx.nRx = lg2.nRx → lgx.sent = lg2.sent →
          let r := setLoop env reg delay req n p2 lgx
          r.2.2.now ≤ lg.now + (n + 1) * (delay + T) ∧ lg.now ≤ r.2.2.now ∧
          (∃ k, k ≤ n + 1 ∧ r.2.2.sent = lg.sent ++ List.replicate k req.wire) ∧
          r.2.2.nRx - lg.nRx ≤ r.2.2.now - lg.now ∧ lg.nRx ≤ r.2.2.nRx := by
        intro lgx e1 e2 e3
        obtain ⟨a1, a2, ⟨k, hk, a3⟩, a4, a5⟩ := ih p2 lgx
        rw [e1] at a1 a2 a4; rw [e2] at a4 a5; rw [e3, w3] at a3
        refine ⟨?_, by omega, ⟨k + 1, by omega, ?_⟩, by omega, by omega⟩
        · rw [Nat.succ_mul]; omega
        · rw [a3, List.replicate_succ]; simp
      cases fo with
      | none => exact hnext (recover lg2) rfl rfl rfl
      | some f =>
        simp only
        split
        · exact hnext lg2 rfl rfl rfl
        · exact hdone


/-- **C05 for `set_mga()`**: at most `n` transmissions, all of the same bytes, and at most `n` waiting
    periods of `delay + T` ticks -/
theorem mgaLoop_bounds (env : Env) (reg : Registry) (T : Nat) (hT : env.rxBound T) (delay : Nat) (req : Req)
    (n : Nat) (p : Parser) (lg : Log) :
    let r := mgaLoop env reg delay req n p lg
    r.2.2.now ≤ lg.now + n * (delay + T) ∧ lg.now ≤ r.2.2.now ∧
    (∃ k, k ≤ n ∧ r.2.2.sent = lg.sent ++ List.replicate k req.wire) ∧
    r.2.2.nRx - lg.nRx ≤ r.2.2.now - lg.now ∧ lg.nRx ≤ r.2.2.nRx := by
  induction n generalizing p lg with
  | zero => simp [mgaLoop]
  | succ n ih =>
    simp only [mgaLoop]
    cases hok : (flushSend env lg req.wire).1
    · -- transmission failed: next attempt at once
      simp only [Bool.false_eq_true, if_false]
      obtain ⟨a1, a2, ⟨k, hk, a3⟩, a4, a5⟩ := ih p (flushSend env lg req.wire).2
      obtain ⟨f1, f2, f3⟩ := flushSend_log env lg req.wire
      rw [f1] at a1 a2 a4; rw [f2] at a4 a5; rw [f3] at a3
      refine ⟨?_, a2, ⟨k + 1, by omega, ?_⟩, a4, a5⟩
      · rw [Nat.succ_mul]; omega
      · rw [a3, List.replicate_succ]; simp
    · simp only [if_true]
      obtain ⟨f1, f2, f3⟩ := flushSend_log env lg req.wire
      have hw := wait_log env reg T hT ((flushSend env lg req.wire).2.now + delay) p.emptyQueue.restart
        (flushSend env lg req.wire).2
      generalize hres : wait env reg ((flushSend env lg req.wire).2.now + delay) p.emptyQueue.restart
        (flushSend env lg req.wire).2 = res at hw
      obtain ⟨fo, p2, lg2⟩ := res
      obtain ⟨w1, w2, w3, w4, w5⟩ := hw
      simp only at w1 w2 w3 w4 w5
      rw [f1] at w1 w2 w4; rw [f2] at w4 w5; rw [f3] at w3
      have hdone : lg2.now ≤ lg.now + (n + 1) * (delay + T) ∧ lg.now ≤ lg2.now ∧
          (∃ k, k ≤ n + 1 ∧ lg2.sent = lg.sent ++ List.replicate k req.wire) ∧
          lg2.nRx - lg.nRx ≤ lg2.now - lg.now ∧ lg.nRx ≤ lg2.nRx := by
        refine ⟨?_, w2, ⟨1, by omega, by rw [w3]; rfl⟩, w4, w5⟩
        rw [Nat.succ_mul]
        have : 0 ≤ n * (delay + T) := Nat.zero_le _
        omega
      have hnext : ∀ (lgx : Log), lgx.now = lg2.now → lgx.nRx = lg2.nRx → lgx.sent = lg2.sent →
          let r := mgaLoop env reg delay req n p2 lgx
          r.2.2.now ≤ lg.now + (n + 1) * (delay + T) ∧ lg.now ≤ r.2.2.now ∧
          (∃ k, k ≤ n + 1 ∧ r.2.2.sent = lg.sent ++ List.replicate k req.wire) ∧
          r.2.2.nRx - lg.nRx ≤ r.2.2.now - lg.now ∧ lg.nRx ≤ r.2.2.nRx := by
        intro lgx e1 e2 e3
        obtain ⟨a1, a2, ⟨k, hk, a3⟩, a4, a5⟩ := ih p2 lgx
        rw [e1] at a1 a2 a4; rw [e2] at a4 a5; rw [e3, w3] at a3
        refine ⟨?_, by omega, ⟨k + 1, by omega, ?_⟩, by omega, by omega⟩
        · rw [Nat.succ_mul]; omega
        · rw [a3, List.replicate_succ]; simp
      cases fo with
      | none => exact hnext (recover lg2) rfl rfl rfl
      | some f =>
        simp only
        split
        · exact hdone
        · exact hnext lg2 rfl rfl rfl



end Ubx

namespace Ubx

theorem pollWaitAck_log (env : Env) (reg : Registry) (T : Nat) (hT : env.rxBound T)
    (req : Cid) (deadline : Nat) (p : Parser) (lg : Log) :
    WaitLog T deadline lg (pollWaitAck env reg req deadline p lg).2.2 := by
  fun_induction pollWaitAck env reg req deadline p lg with
  | case1 p lg f p' lg' hw hck =>
    have h := wait_log env reg T hT deadline p lg
    rw [hw] at h; exact h
  | case2 p lg f p' lg' hw hck ih =>
    have h := wait_log env reg T hT deadline p lg
    rw [hw] at h
    obtain ⟨a1, a2, a3, a4, a5⟩ := h
    obtain ⟨b1, b2, b3, b4, b5⟩ := ih
    simp only at a1 a2 a3 a4 a5
    constructor
    · omega
    · omega
    · rw [b3, a3]
    · omega
    · omega
  | case3 p lg p' lg' hw =>
    have h := wait_log env reg T hT deadline p lg
    rw [hw] at h; exact h

/-- one attempt of `poll()`: at most two waiting periods (one for non-CFG), no transmission -/
theorem pollAttempt_log (env : Env) (reg : Registry) (T : Nat) (hT : env.rxBound T)
    (req : Cid) (delay deadline : Nat) (p : Parser) (lg : Log) :
    let r := pollAttempt env reg req delay deadline p lg
    r.2.2.now ≤ max lg.now (deadline + T) + (delay + T) ∧ lg.now ≤ r.2.2.now ∧ r.2.2.sent = lg.sent ∧
    r.2.2.nRx - lg.nRx ≤ r.2.2.now - lg.now ∧ lg.nRx ≤ r.2.2.nRx ∧
    (req.cls ≠ CLASS_CFG → r.2.2.now ≤ max lg.now (deadline + T)) := by
  fun_induction pollAttempt env reg req delay deadline p lg with
  | case1 p lg f p' lg' hw hcid hcfg p'' lg'' hack =>
    have h := wait_log env reg T hT deadline p lg
    rw [hw] at h
    obtain ⟨a1, a2, a3, a4, a5⟩ := h
    have h2 := pollWaitAck_log env reg T hT req (lg'.now + delay) p' lg'
    rw [hack] at h2
    obtain ⟨b1, b2, b3, b4, b5⟩ := h2
    simp only at a1 a2 a3 a4 a5 b1 b2 b3 b4 b5 ⊢
    refine ⟨by omega, by omega, by rw [b3, a3], by omega, by omega, fun hne => absurd hcfg hne⟩
  | case2 p lg f p' lg' hw hcid hcfg p'' lg'' hack =>
    have h := wait_log env reg T hT deadline p lg
    rw [hw] at h
    obtain ⟨a1, a2, a3, a4, a5⟩ := h
    have h2 := pollWaitAck_log env reg T hT req (lg'.now + delay) p' lg'
    rw [hack] at h2
    obtain ⟨b1, b2, b3, b4, b5⟩ := h2
    simp only at a1 a2 a3 a4 a5 b1 b2 b3 b4 b5 ⊢
    refine ⟨by omega, by omega, by rw [b3, a3], by omega, by omega, fun hne => absurd hcfg hne⟩
  | case3 p lg f p' lg' hw hcid hcfg =>
    have h := wait_log env reg T hT deadline p lg
    rw [hw] at h
    obtain ⟨a1, a2, a3, a4, a5⟩ := h
    simp only at a1 a2 a3 a4 a5 ⊢
    exact ⟨by omega, a2, a3, a4, a5, fun _ => a1⟩
  | case4 p lg f p' lg' hw hcid ih =>
    have h := wait_log env reg T hT deadline p lg
    rw [hw] at h
    obtain ⟨a1, a2, a3, a4, a5⟩ := h
    obtain ⟨b1, b2, b3, b4, b5, b6⟩ := ih
    simp only at a1 a2 a3 a4 a5 b1 b2 b3 b4 b5 b6 ⊢
    refine ⟨by omega, by omega, by rw [b3, a3], by omega, by omega, fun hne => ?_⟩
    have := b6 hne
    omega
  | case5 p lg p' lg' hw =>
    have h := wait_log env reg T hT deadline p lg
    rw [hw] at h
    obtain ⟨a1, a2, a3, a4, a5⟩ := h
    simp only at a1 a2 a3 a4 a5 ⊢
    exact ⟨by omega, a2, a3, a4, a5, fun _ => a1⟩

end Ubx

namespace Ubx

/-- **C05 for `poll()`**: at most `n` transmissions of the same bytes; at most `n` attempts of two
    waiting periods each (one for requests that are not configuration class) -/
theorem pollLoop_bounds (env : Env) (reg : Registry) (T : Nat) (hT : env.rxBound T) (delay : Nat) (req : Req)
    (n : Nat) (p : Parser) (lg : Log) :
    let r := pollLoop env reg delay req n p lg
    r.2.2.now ≤ lg.now + n * (2 * (delay + T)) ∧ lg.now ≤ r.2.2.now ∧
    (∃ k, k ≤ n ∧ r.2.2.sent = lg.sent ++ List.replicate k req.wire) ∧
    r.2.2.nRx - lg.nRx ≤ r.2.2.now - lg.now ∧ lg.nRx ≤ r.2.2.nRx ∧
    (req.cid.cls ≠ CLASS_CFG → r.2.2.now ≤ lg.now + n * (delay + T)) := by
  induction n generalizing p lg with
  | zero => simp [pollLoop]
  | succ n ih =>
    simp only [pollLoop]
    obtain ⟨f1, f2, f3⟩ := flushSend_log env lg req.wire
    cases hok : (flushSend env lg req.wire).1
    · simp only [Bool.false_eq_true, if_false]
      obtain ⟨a1, a2, ⟨k, hk, a3⟩, a4, a5, a6⟩ := ih p (flushSend env lg req.wire).2
      rw [f1] at a1 a2 a4 a6; rw [f2] at a4 a5; rw [f3] at a3
      refine ⟨?_, a2, ⟨k + 1, by omega, ?_⟩, a4, a5, fun hne => ?_⟩
      · rw [Nat.succ_mul]; omega
      · rw [a3, List.replicate_succ]; simp
      · have := a6 hne; rw [Nat.succ_mul]; omega
    · simp only [if_true]
      have hw := pollAttempt_log env reg T hT req.cid delay ((flushSend env lg req.wire).2.now + delay)
        p.emptyQueue.restart (flushSend env lg req.wire).2
      generalize hres : pollAttempt env reg req.cid delay ((flushSend env lg req.wire).2.now + delay)
        p.emptyQueue.restart (flushSend env lg req.wire).2 = res at hw
      obtain ⟨fo, p2, lg2⟩ := res
      obtain ⟨w1, w2, w3, w4, w5, w6⟩ := hw
      simp only at w1 w2 w3 w4 w5 w6
      rw [f1] at w1 w2 w4 w6; rw [f2] at w4 w5; rw [f3] at w3
      cases fo with
      | some f =>
        simp only
        refine ⟨?_, w2, ⟨1, by omega, by rw [w3]; rfl⟩, w4, w5, fun hne => ?_⟩
        · rw [Nat.succ_mul]; have : 0 ≤ n * (2 * (delay + T)) := Nat.zero_le _; omega
        · have := w6 hne; rw [Nat.succ_mul]; have : 0 ≤ n * (delay + T) := Nat.zero_le _; omega
      | none =>
        simp only
        obtain ⟨a1, a2, ⟨k, hk, a3⟩, a4, a5, a6⟩ := ih p2 (recover lg2)
        have e1 : (recover lg2).now = lg2.now := rfl
        have e2 : (recover lg2).nRx = lg2.nRx := rfl
        have e3 : (recover lg2).sent = lg2.sent := rfl
        rw [e1] at a1 a2 a4 a6; rw [e2] at a4 a5; rw [e3, w3] at a3
        refine ⟨?_, by omega, ⟨k + 1, by omega, ?_⟩, by omega, by omega, fun hne => ?_⟩
        · rw [Nat.succ_mul]; omega
        · rw [a3, List.replicate_succ]; simp
        · have := a6 hne; have := w6 hne; rw [Nat.succ_mul]; omega

end Ubx

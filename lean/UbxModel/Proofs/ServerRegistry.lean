import UbxModel.Proofs.ServerIndependencePoll
/-! The request loop consults the frame factory only for class/ids that pass the parser's filter:
    two registries that agree on those class/ids are indistinguishable to a request.  (So the
    response classes that earlier polls registered under *other* class/ids cannot leak.) -/
namespace Ubx

/-- every data packet queued has a class/id of `F` -/
def QueueWithin (F : List Cid) (q : List Packet) : Prop := ∀ cid pl, Packet.data cid pl ∈ q → cid ∈ F

theorem step_within (p : Parser) (d : Nat) (F : List Cid) (hF : p.filter = some F)
    (h : QueueWithin F p.queue) : QueueWithin F (p.step d).queue := by
  unfold Parser.step
  cases hst : p.st <;> simp only []
  case crc2 =>
    split
    · simp only []
      by_cases hp : p.passes ⟨p.msgClass, p.msgId⟩ = true
      · rw [if_pos hp]
        intro cid pl hm
        rcases List.mem_append.mp hm with h1 | h1
        · exact h cid pl h1
        · simp only [List.mem_singleton, Packet.data.injEq] at h1
          obtain ⟨rfl, -⟩ := h1
          simpa [Parser.passes, filterPasses, hF] using hp
      · rw [if_neg hp]; exact h
    · intro cid pl hm
      simp only [List.mem_append, List.mem_singleton] at hm
      rcases hm with h1 | h1
      · exact h cid pl h1
      · cases h1
  all_goals (repeat' split) <;> first | exact h | (simp only [Parser.reset]; exact h)

theorem process_within (p : Parser) (bs : List Nat) (F : List Cid) (hF : p.filter = some F)
    (h : QueueWithin F p.queue) : QueueWithin F (p.process bs).queue := by
  induction bs generalizing p with
  | nil => exact h
  | cons d ds ih =>
    show QueueWithin F ((p.step d).process ds).queue
    exact ih (p.step d) (by rw [step_filter, hF]) (step_within p d F hF h)

/-- the registries build the same frames from class/ids of `F` -/
def RegAgree (F : List Cid) (r1 r2 : Registry) : Prop := ∀ cid ∈ F, ∀ pl, r1.build cid pl = r2.build cid pl

theorem drain_agree (F : List Cid) (r1 r2 : Registry) (ha : RegAgree F r1 r2) (q : List Packet)
    (hq : QueueWithin F q) : drain r1 q = drain r2 q ∧ QueueWithin F (drain r1 q).2 := by
  induction q with
  | nil => exact ⟨rfl, hq⟩
  | cons x xs ih =>
    have hxs : QueueWithin F xs := fun c pl hm => hq c pl (by simp [hm])
    cases x with
    | crcError => simp only [drain]; exact ih hxs
    | data cid pl =>
      have hb := ha cid (hq cid pl (by simp)) pl
      simp only [drain, ← hb]
      cases r1.build cid pl with
      | some f => exact ⟨rfl, hxs⟩
      | none => exact ih hxs

/-- **`_wait()` cannot tell agreeing registries apart** -/
theorem wait_agree (env : Env) (F : List Cid) (r1 r2 : Registry) (ha : RegAgree F r1 r2) (deadline : Nat)
    (p : Parser) (lg : Log) (hF : p.filter = some F) (hq : QueueWithin F p.queue) :
    wait env r1 deadline p lg = wait env r2 deadline p lg ∧ QueueWithin F (wait env r1 deadline p lg).2.1.queue := by
  generalize hn : deadline - lg.now = n
  induction n using Nat.strongRecOn generalizing p lg with
  | _ n ih =>
    rw [wait_eq env r1, wait_eq env r2]
    by_cases hlt : lg.now < deadline
    · simp only [hlt, if_true]
      have hw := process_within p (env.rx lg.nRx).2 F hF hq
      obtain ⟨d1, d2⟩ := drain_agree F r1 r2 ha _ hw
      rw [← d1]
      generalize drain r1 (p.process (env.rx lg.nRx).2).queue = res at d2
      obtain ⟨fo, x⟩ := res
      cases fo with
      | some f => exact ⟨rfl, d2⟩
      | none =>
        simp only
        exact ih (deadline - (lg.now + tick (env.rx lg.nRx).1)) (by simp only [tick]; omega) _ _
          (by show (p.process _).filter = _; rw [process_filter, hF]) d2 rfl
    · simp only [hlt, if_false]
      exact ⟨trivial, hq⟩

theorem within_nil (F : List Cid) : QueueWithin F [] := fun _ _ h => by simp at h

theorem setLoop_agree (env : Env) (F : List Cid) (r1 r2 : Registry) (ha : RegAgree F r1 r2) (delay : Nat) (req : Req)
    (n : Nat) (p : Parser) (lg : Log) (hF : p.filter = some F) :
    setLoop env r1 delay req n p lg = setLoop env r2 delay req n p lg := by
  induction n generalizing p lg with
  | zero => rfl
  | succ n ih =>
    simp only [setLoop]
    cases hok : (flushSend env lg req.wire).1
    · simp only [Bool.false_eq_true, if_false]
      exact ih p _ hF
    · simp only [if_true]
      obtain ⟨e, -⟩ := wait_agree env F r1 r2 ha ((flushSend env lg req.wire).2.now + delay) p.emptyQueue.restart
        (flushSend env lg req.wire).2 hF (within_nil F)
      have hwf := (wait_provenance env r1 ((flushSend env lg req.wire).2.now + delay) p.emptyQueue.restart
        (flushSend env lg req.wire).2).1
      rw [← e]
      generalize wait env r1 ((flushSend env lg req.wire).2.now + delay) p.emptyQueue.restart
        (flushSend env lg req.wire).2 = res at hwf
      obtain ⟨fo, p2, lg2⟩ := res
      have hF2 : p2.filter = some F := hwf.trans hF
      cases fo with
      | none => exact ih p2 _ hF2
      | some f =>
        simp only
        split
        · exact ih p2 _ hF2
        · rfl

theorem mgaLoop_agree (env : Env) (F : List Cid) (r1 r2 : Registry) (ha : RegAgree F r1 r2) (delay : Nat) (req : Req)
    (n : Nat) (p : Parser) (lg : Log) (hF : p.filter = some F) :
    mgaLoop env r1 delay req n p lg = mgaLoop env r2 delay req n p lg := by
  induction n generalizing p lg with
  | zero => rfl
  | succ n ih =>
    simp only [mgaLoop]
    cases hok : (flushSend env lg req.wire).1
    · simp only [Bool.false_eq_true, if_false]
      exact ih p _ hF
    · simp only [if_true]
      obtain ⟨e, -⟩ := wait_agree env F r1 r2 ha ((flushSend env lg req.wire).2.now + delay) p.emptyQueue.restart
        (flushSend env lg req.wire).2 hF (within_nil F)
      have hwf := (wait_provenance env r1 ((flushSend env lg req.wire).2.now + delay) p.emptyQueue.restart
        (flushSend env lg req.wire).2).1
      rw [← e]
      generalize wait env r1 ((flushSend env lg req.wire).2.now + delay) p.emptyQueue.restart
        (flushSend env lg req.wire).2 = res at hwf
      obtain ⟨fo, p2, lg2⟩ := res
      have hF2 : p2.filter = some F := hwf.trans hF
      cases fo with
      | none => exact ih p2 _ hF2
      | some f =>
        simp only
        split
        · rfl
        · exact ih p2 _ hF2

theorem pollWaitAck_agree (env : Env) (F : List Cid) (r1 r2 : Registry) (ha : RegAgree F r1 r2) (req : Cid)
    (deadline : Nat) (p : Parser) (lg : Log) (hF : p.filter = some F) (hq : QueueWithin F p.queue) :
    pollWaitAck env r1 req deadline p lg = pollWaitAck env r2 req deadline p lg ∧
    (pollWaitAck env r1 req deadline p lg).2.1.filter = some F := by
  generalize hn : deadline - lg.now = n
  induction n using Nat.strongRecOn generalizing p lg with
  | _ n ih =>
    rw [pollWaitAck_eq env r1, pollWaitAck_eq env r2]
    obtain ⟨e, hw⟩ := wait_agree env F r1 r2 ha deadline p lg hF hq
    have hwf := (wait_provenance env r1 deadline p lg).1
    have hadv := wait_some_advances env r1 deadline p lg
    rw [← e]
    generalize wait env r1 deadline p lg = res at hw hwf hadv
    obtain ⟨fo, p2, lg2⟩ := res
    simp only at hw hwf hadv
    cases fo with
    | none => exact ⟨rfl, hwf.trans hF⟩
    | some f =>
      simp only
      split
      · exact ⟨rfl, hwf.trans hF⟩
      · obtain ⟨h1, h2⟩ := hadv f rfl
        exact ih (deadline - lg2.now) (by omega) p2 lg2 (hwf.trans hF) hw rfl

theorem pollAttempt_agree (env : Env) (F : List Cid) (r1 r2 : Registry) (ha : RegAgree F r1 r2) (req : Cid)
    (delay deadline : Nat) (p : Parser) (lg : Log) (hF : p.filter = some F) (hq : QueueWithin F p.queue) :
    pollAttempt env r1 req delay deadline p lg = pollAttempt env r2 req delay deadline p lg ∧
    (pollAttempt env r1 req delay deadline p lg).2.1.filter = some F := by
  generalize hn : deadline - lg.now = n
  induction n using Nat.strongRecOn generalizing p lg with
  | _ n ih =>
    rw [pollAttempt_eq env r1, pollAttempt_eq env r2]
    obtain ⟨e, hw⟩ := wait_agree env F r1 r2 ha deadline p lg hF hq
    have hwf := (wait_provenance env r1 deadline p lg).1
    have hadv := wait_some_advances env r1 deadline p lg
    rw [← e]
    generalize wait env r1 deadline p lg = res at hw hwf hadv
    obtain ⟨fo, p2, lg2⟩ := res
    simp only at hw hwf hadv
    cases fo with
    | none => exact ⟨rfl, hwf.trans hF⟩
    | some f =>
      simp only
      split
      · split
        · obtain ⟨e2, f2⟩ := pollWaitAck_agree env F r1 r2 ha req (lg2.now + delay) p2 lg2 (hwf.trans hF) hw
          rw [← e2]
          generalize pollWaitAck env r1 req (lg2.now + delay) p2 lg2 = r at f2
          obtain ⟨o, x, y⟩ := r
          cases o <;> exact ⟨rfl, f2⟩
        · exact ⟨rfl, hwf.trans hF⟩
      · obtain ⟨h1, h2⟩ := hadv f rfl
        exact ih (deadline - lg2.now) (by omega) p2 lg2 (hwf.trans hF) hw rfl

theorem pollLoop_agree (env : Env) (F : List Cid) (r1 r2 : Registry) (ha : RegAgree F r1 r2) (delay : Nat) (req : Req)
    (n : Nat) (p : Parser) (lg : Log) (hF : p.filter = some F) :
    pollLoop env r1 delay req n p lg = pollLoop env r2 delay req n p lg := by
  induction n generalizing p lg with
  | zero => rfl
  | succ n ih =>
    simp only [pollLoop]
    cases hok : (flushSend env lg req.wire).1
    · simp only [Bool.false_eq_true, if_false]
      exact ih p _ hF
    · simp only [if_true]
      obtain ⟨e, hf2⟩ := pollAttempt_agree env F r1 r2 ha req.cid delay ((flushSend env lg req.wire).2.now + delay)
        p.emptyQueue.restart (flushSend env lg req.wire).2 hF (within_nil F)
      rw [← e]
      generalize pollAttempt env r1 req.cid delay ((flushSend env lg req.wire).2.now + delay) p.emptyQueue.restart
        (flushSend env lg req.wire).2 = res at hf2
      obtain ⟨fo, p2, lg2⟩ := res
      cases fo with
      | none => exact ih p2 _ hf2
      | some f => rfl

/-- registering a class under `c` does not change what is built for another class/id -/
theorem build_register_ne (r : Registry) (c : Cid) (ci : ClassInfo) (cid : Cid) (h : cid ≠ c) (pl : List Nat) :
    (r.register c ci).build cid pl = r.build cid pl := by
  have hf : ∀ l : Registry, (l.filter (fun e => e.1 ≠ c)).find? (fun e => e.1 = cid) = l.find? (fun e => e.1 = cid) := by
    intro l
    induction l with
    | nil => rfl
    | cons x xs ih =>
      by_cases hx : x.1 = c
      · have hne : ¬ x.1 = cid := fun e => h (e.symm.trans hx)
        have h1 : decide (x.1 ≠ c) = false := by simp [hx]
        have h2 : decide (x.1 = cid) = false := by simp [hne]
        simp only [List.filter_cons, h1, Bool.false_eq_true, if_false, List.find?_cons, h2]
        exact ih
      · have h1 : decide (x.1 ≠ c) = true := by simp [hx]
        simp only [List.filter_cons, h1, if_true, List.find?_cons]
        cases decide (x.1 = cid)
        · exact ih
        · rfl
  simp only [Registry.build, Registry.register]
  rw [List.find?_cons]
  have : ¬ c = cid := fun e => h e.symm
  simp only [this, decide_false]
  rw [hf]

theorem build_register_self (r : Registry) (c : Cid) (ci : ClassInfo) (pl : List Nat) :
    (r.register c ci).build c pl = if ci.decodable pl then some ⟨c, ci.tag, pl⟩ else none := by
  simp [Registry.build, Registry.register, List.find?_cons]

/-- registries that agree on `F` still agree on `F` (and on `c`) after registering the same class under `c` -/
theorem RegAgree.register {F : List Cid} {r1 r2 : Registry} (h : RegAgree F r1 r2) (c : Cid) (ci : ClassInfo) :
    RegAgree (c :: F) (r1.register c ci) (r2.register c ci) := by
  intro cid hm pl
  by_cases hc : cid = c
  · subst hc; rw [build_register_self, build_register_self]
  · rw [build_register_ne _ _ _ _ hc, build_register_ne _ _ _ _ hc]
    exact h cid (by simpa [hc] using hm) pl

theorem RegAgree.mono {F G : List Cid} {r1 r2 : Registry} (h : RegAgree F r1 r2) (hs : ∀ c ∈ G, c ∈ F) :
    RegAgree G r1 r2 := fun cid hm pl => h cid (hs cid hm) pl

end Ubx

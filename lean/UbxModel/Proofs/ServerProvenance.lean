import UbxModel.Proofs.Server
import UbxModel.Proofs.ParserQueue
namespace Ubx

/-- the bytes returned by `n` consecutive receive calls starting with call number `a` -/
def rxBytes (env : Env) (a : Nat) : Nat → List Nat
  | 0 => []
  | n + 1 => (env.rx a).2 ++ rxBytes env (a + 1) n

theorem Registry.build_some (r : Registry) (cid : Cid) (pl : List Nat) (f : RFrame) (h : r.build cid pl = some f) :
    f.cid = cid ∧ f.payload = pl := by
  simp only [Registry.build] at h
  split at h
  · split at h
    · simp at h; subst h; exact ⟨rfl, rfl⟩
    · cases h
  · cases h

/-- `drain`: a returned frame was built from a data packet of the queue; if nothing is returned the
    queue has been emptied -/
theorem drain_spec (reg : Registry) (q : List Packet) :
    (∀ f q', drain reg q = (some f, q') → Packet.data f.cid f.payload ∈ q ∧ reg.build f.cid f.payload = some f) ∧
    (∀ q', drain reg q = (none, q') → q' = []) := by
  induction q with
  | nil => simp [drain]
  | cons x rest ih =>
    cases x with
    | crcError =>
      simp only [drain]
      exact ⟨fun f q' h => by have := ih.1 f q' h; exact ⟨by simp [this.1], this.2⟩, ih.2⟩
    | data cid pl =>
      simp only [drain]
      cases hb : reg.build cid pl with
      | none =>
        simp only
        exact ⟨fun f q' h => by have := ih.1 f q' h; exact ⟨by simp [this.1], this.2⟩, ih.2⟩
      | some f0 =>
        simp only
        refine ⟨fun f q' h => ?_, fun q' h => by simp at h⟩
        simp only [Prod.mk.injEq, Option.some.injEq] at h
        obtain ⟨rfl, -⟩ := h
        obtain ⟨e1, e2⟩ := reg.build_some cid pl f0 hb
        rw [e1, e2]; exact ⟨by simp, hb⟩

theorem step_filter (p : Parser) (d : Nat) : (p.step d).filter = p.filter := by
  obtain ⟨_, _, h⟩ := step_with_queue p p.queue d
  have : ({ p with queue := p.queue } : Parser) = p := rfl
  unfold Parser.step
  cases p.st <;> simp only [] <;> (repeat' split) <;> simp [Parser.reset]

theorem process_filter (p : Parser) (bs : List Nat) : (p.process bs).filter = p.filter := by
  induction bs generalizing p with
  | nil => rfl
  | cons d ds ih => show ((p.step d).process ds).filter = _; rw [ih, step_filter]

theorem process_if_empty (p : Parser) (c : List Nat) : (if c.isEmpty then p else p.process c) = p.process c := by
  cases c with
  | nil => rfl
  | cons x xs => simp

/-- **provenance of `_wait()`**: a returned frame was built, by the class registered for its class/id,
    from a data packet that the parser it was given produces from exactly the bytes received by this
    call; the filter is not touched -/
theorem wait_provenance (env : Env) (reg : Registry) (deadline : Nat) (p : Parser) (lg : Log) :
    let r := wait env reg deadline p lg
    r.2.1.filter = p.filter ∧ lg.nRx ≤ r.2.2.nRx ∧
    ∀ f, r.1 = some f →
      Packet.data f.cid f.payload ∈ (p.process (rxBytes env lg.nRx (r.2.2.nRx - lg.nRx))).queue ∧
      reg.build f.cid f.payload = some f := by
  fun_induction wait env reg deadline p lg with
  | case1 p lg hlt r lg' p1 f q hd =>
    have hp1 : p1 = p.process r.2 := process_if_empty p r.2
    refine ⟨?_, by simp [lg'], fun f' hf => ?_⟩
    · show p1.filter = p.filter
      rw [hp1, process_filter]
    · simp only [Option.some.injEq] at hf
      subst hf
      obtain ⟨h1, h2⟩ := (drain_spec reg p1.queue).1 f q hd
      have : lg'.nRx - lg.nRx = 1 := by simp [lg']
      rw [this]
      simp only [rxBytes, List.append_nil]
      rw [← hp1]; exact ⟨h1, h2⟩
  | case2 p lg hlt r lg' p1 q hd ih =>
    have hp1 : p1 = p.process r.2 := process_if_empty p r.2
    have hq : q = [] := (drain_spec reg p1.queue).2 q hd
    subst hq
    obtain ⟨i1, i2, i3⟩ := ih
    have hn : lg'.nRx = lg.nRx + 1 := rfl
    refine ⟨?_, by omega, fun f hf => ?_⟩
    · rw [i1]; show p1.filter = p.filter; rw [hp1, process_filter]
    · obtain ⟨j1, j2⟩ := i3 f hf
      refine ⟨?_, j2⟩
      generalize hN : (wait env reg deadline { p1 with queue := [] } lg').2.2.nRx = N at *
      have hsplit : N - lg.nRx = (N - lg'.nRx) + 1 := by omega
      rw [hsplit]
      simp only [rxBytes]
      rw [Parser.process_append, ← hp1, ← hn]
      obtain ⟨app, a1, a2⟩ := process_with_queue p1 [] (rxBytes env lg'.nRx (N - lg'.nRx))
      rw [a2] at j1
      rw [a1]
      simp only [List.nil_append] at j1
      exact List.mem_append_right _ j1
  | case3 p lg hnl => exact ⟨rfl, Nat.le_refl _, fun f hf => by simp at hf⟩

end Ubx

namespace Ubx

theorem wait_sent (env : Env) (reg : Registry) (deadline : Nat) (p : Parser) (lg : Log) :
    (wait env reg deadline p lg).2.2.sent = lg.sent := by
  fun_induction wait env reg deadline p lg with
  | case1 p lg hlt r lg' p1 f q hd => rfl
  | case2 p lg hlt r lg' p1 q hd ih => rw [ih]
  | case3 p lg hnl => rfl

/-- a frame delivered by an attempt comes from the bytes received after that attempt's transmission,
    parsed as by a *new* parser with the request's filter (nothing older can leak in) -/
def FromFresh (env : Env) (F : List Cid) (f : RFrame) (lgEnd : Log) : Prop :=
  ∃ j0 m, j0 + m = lgEnd.nRx ∧
    Packet.data f.cid f.payload ∈ ((Parser.fresh (some F)).process (rxBytes env j0 m)).queue

theorem attempt_fresh (env : Env) (reg : Registry) (deadline : Nat) (p : Parser) (lg : Log) (F : List Cid)
    (hF : p.filter = some F) :
    let r := wait env reg deadline p.emptyQueue.restart lg
    r.2.1.filter = some F ∧ ∀ f, r.1 = some f → FromFresh env F f r.2.2 ∧ reg.build f.cid f.payload = some f := by
  obtain ⟨h1, h2, h3⟩ := wait_provenance env reg deadline p.emptyQueue.restart lg
  refine ⟨by rw [h1]; exact hF, fun f hf => ?_⟩
  obtain ⟨m1, m2⟩ := h3 f hf
  refine ⟨⟨lg.nRx, (wait env reg deadline p.emptyQueue.restart lg).2.2.nRx - lg.nRx, by omega, ?_⟩, m2⟩
  have hre := restart_equiv p.emptyQueue (rxBytes env lg.nRx ((wait env reg deadline p.emptyQueue.restart lg).2.2.nRx - lg.nRx))
  obtain ⟨q1, -⟩ := hre
  rw [q1] at m1
  have : p.emptyQueue.filter = some F := hF
  rw [this] at m1
  simpa [Parser.emptyQueue] using m1

/-- **C04 for `set()`**: a returned frame is an ACK-ACK that names the request or an ACK-NAK, built
    by the registered class from a data packet that a new parser with filter {ACK, NAK} produces from
    bytes received after a transmission of this request -/
theorem setLoop_result (env : Env) (reg : Registry) (delay : Nat) (req : Req) (F : List Cid)
    (n : Nat) (p : Parser) (lg : Log) (hF : p.filter = some F) :
    let r := setLoop env reg delay req n p lg
    ∀ f, r.1 = some f →
      checkAckNak req.cid f ≠ .other ∧ FromFresh env F f r.2.2 ∧ reg.build f.cid f.payload = some f ∧
      lg.sent.length < r.2.2.sent.length := by
  induction n generalizing p lg with
  | zero => intro r f hf; simp [r, setLoop] at hf
  | succ n ih =>
    simp only [setLoop]
    obtain ⟨f1, f2, f3⟩ := flushSend_log env lg req.wire
    have hsent : lg.sent.length < (flushSend env lg req.wire).2.sent.length := by rw [f3]; simp
    cases hok : (flushSend env lg req.wire).1
    · simp only [Bool.false_eq_true, if_false]
      intro f hf
      obtain ⟨a, b, c, d⟩ := ih p (flushSend env lg req.wire).2 hF f hf
      exact ⟨a, b, c, by omega⟩
    · simp only [if_true]
      obtain ⟨w1, w2⟩ := attempt_fresh env reg ((flushSend env lg req.wire).2.now + delay) p (flushSend env lg req.wire).2 F hF
      have hws := wait_sent env reg ((flushSend env lg req.wire).2.now + delay) p.emptyQueue.restart (flushSend env lg req.wire).2
      generalize hres : wait env reg ((flushSend env lg req.wire).2.now + delay) p.emptyQueue.restart
        (flushSend env lg req.wire).2 = res at w1 w2 hws
      obtain ⟨fo, p2, lg2⟩ := res
      simp only at w1 w2 hws
      cases fo with
      | none =>
        simp only
        intro f hf
        obtain ⟨a, b, c, d⟩ := ih p2 (recover lg2) w1 f hf
        have : (recover lg2).sent = lg2.sent := rfl
        rw [this, hws] at d
        exact ⟨a, b, c, by omega⟩
      | some f0 =>
        simp only
        split
        · intro f hf
          obtain ⟨a, b, c, d⟩ := ih p2 lg2 w1 f hf
          rw [hws] at d
          exact ⟨a, b, c, by omega⟩
        · rename_i hne
          intro f hf
          simp only [Option.some.injEq] at hf
          subst hf
          obtain ⟨b, c⟩ := w2 f0 rfl
          exact ⟨hne, b, c, by rw [hws]; exact hsent⟩

end Ubx

import UbxModel.Proofs.ParserBasic
namespace Ubx

/-- no adjacent `B5 62` inside the bytes (a trailing lone `B5` is allowed) -/
def noSyncPair : List Nat → Bool
  | a :: b :: rest => !(a == 0xB5 && b == 0x62) && noSyncPair (b :: rest)
  | _ => true

/-- Lemma B: filler without a sync pair leaves the parser hunting and delivers nothing -/
theorem Parser.process_gap (p : Parser) (bs : List Nat) (h : p.hunting)
    (hhead : p.st = .sync → bs.head? ≠ some 0x62) (hns : noSyncPair bs = true) :
    let p' := p.process bs
    p'.hunting ∧ p'.filter = p.filter ∧ p'.queue = p.queue ∧ p'.framesRx = p.framesRx := by
  induction bs generalizing p with
  | nil => simpa [Parser.process] using h
  | cons x xs ih =>
    rw [Parser.process_cons]
    have hns' : noSyncPair xs = true := by
      cases xs with
      | nil => rfl
      | cons y ys => simp [noSyncPair] at hns; exact hns.2
    rcases h with h | h
    · by_cases hx : x = 0xB5
      · have hstep : p.step x = { p with st := .sync } := by simp [Parser.step, h, hx]
        rw [hstep]
        have := ih { p with st := .sync } (Or.inr rfl) (by
          intro _
          cases xs with
          | nil => simp
          | cons y ys =>
            simp [noSyncPair, hx] at hns
            simpa using hns.1) hns'
        simpa using this
      · have hstep : p.step x = p := by simp [Parser.step, h, hx]
        rw [hstep]
        exact ih p (Or.inl h) (by simp [h]) hns'
    · have hx62 : x ≠ 0x62 := by simpa using hhead h
      by_cases hx : x = 0xB5
      · have hstep : p.step x = p := by simp [Parser.step, h, hx]
        rw [hstep]
        exact ih p (Or.inr h) (by
          intro _
          cases xs with
          | nil => simp
          | cons y ys =>
            simp [noSyncPair, hx] at hns
            simpa using hns.1) hns'
      · have hstep : p.step x = { p with st := .init } := by simp [Parser.step, h, hx, hx62]
        rw [hstep]
        have := ih { p with st := .init } (Or.inl rfl) (by simp) hns'
        simpa using this

/-- a 6-byte header that announces more than `MAXLEN` payload bytes is dropped, exactly 6 bytes -/
theorem Parser.process_long (p : Parser) (h : p.hunting) (cls id l1 l2 : Nat)
    (hbig : l1 + l2 * 256 > MAXLEN) :
    let p' := p.process [0xB5, 0x62, cls, id, l1, l2]
    p'.st = .init ∧ p'.filter = p.filter ∧ p'.queue = p.queue ∧ p'.framesRx = p.framesRx := by
  have hsync : ∃ p0 : Parser, p.process [0xB5, 0x62] = { p0.reset with st := .cls } ∧
      p0.queue = p.queue ∧ p0.filter = p.filter ∧ p0.framesRx = p.framesRx := by
    rcases h with h | h
    · exact ⟨{ p with st := .sync }, by simp [Parser.process, Parser.step, h]⟩
    · exact ⟨p, by simp [Parser.process, Parser.step, h]⟩
  obtain ⟨p0, hp0, hq, hf, hr⟩ := hsync
  intro p'
  have hsplit : [0xB5, 0x62, cls, id, l1, l2] = [0xB5, 0x62] ++ [cls, id, l1, l2] := rfl
  simp only [p', hsplit, Parser.process_append, hp0]
  simp only [Parser.process, List.foldl_cons, List.foldl_nil]
  simp [step_cls, step_id, step_len1, step_len2_long, hbig, Parser.reset, hq, hf, hr]

/-- what may follow a gap: a frame-shaped sequence, or a header announcing too much -/
inductive Shape
  | frame (cls id : Nat) (pl : List Nat) (a b : Nat)
  | long (cls id l1 l2 : Nat)

def Shape.bytes : Shape → List Nat
  | .frame cls id pl a b => frameBytes cls id pl a b
  | .long cls id l1 l2 => [0xB5, 0x62, cls, id, l1, l2]

def Shape.ok : Shape → Prop
  | .frame _ _ pl _ _ => pl.length ≤ MAXLEN
  | .long _ _ l1 l2 => l1 + l2 * 256 > MAXLEN

/-- checksum-valid frame? -/
def Shape.valid : Shape → Bool
  | .frame cls id pl a b => (frameCk cls id pl).a == a && (frameCk cls id pl).b == b
  | .long .. => false

/-- one stream item: filler (no sync pair) followed by a shape -/
structure Item where
  gap : List Nat
  shape : Shape

def Item.bytes (it : Item) : List Nat := it.gap ++ it.shape.bytes
def Item.ok (it : Item) : Prop := noSyncPair it.gap = true ∧ it.shape.ok

/-- what the item must put into the queue under filter `f` -/
def Item.packets (f : Option (List Cid)) (it : Item) : List Packet :=
  match it.shape with
  | .frame cls id pl _ _ =>
      if it.shape.valid then (if filterPasses f ⟨cls, id⟩ then [Packet.data ⟨cls, id⟩ pl] else [])
      else [Packet.crcError]
  | .long .. => []

def expectedPackets (f : Option (List Cid)) (items : List Item) : List Packet :=
  items.flatMap (Item.packets f)

def validCount (items : List Item) : Nat := (items.filter (·.shape.valid)).length

theorem Parser.process_item (p : Parser) (hst : p.st = .init) (it : Item) (hok : it.ok) :
    let p' := p.process it.bytes
    p'.st = .init ∧ p'.filter = p.filter ∧ p'.queue = p.queue ++ it.packets p.filter ∧
    p'.framesRx = p.framesRx + (if it.shape.valid then 1 else 0) := by
  obtain ⟨hh, hf, hq, hr⟩ := p.process_gap it.gap (Or.inl hst) (by simp [hst]) hok.1
  simp only [Item.bytes, Parser.process_append]
  cases hs : it.shape with
  | long cls id l1 l2 =>
    have hbig : l1 + l2 * 256 > MAXLEN := by have := hok.2; rw [hs] at this; exact this
    obtain ⟨a1, a2, a3, a4⟩ := (p.process it.gap).process_long hh cls id l1 l2 hbig
    simp only [Shape.bytes, Item.packets, hs, Shape.valid]
    refine ⟨a1, by rw [a2, hf], by rw [a3, hq]; simp, by rw [a4, hr]; simp⟩
  | frame cls id pl a b =>
    have hlen : pl.length ≤ MAXLEN := by have := hok.2; rw [hs] at this; exact this
    obtain ⟨a1, a2, a3⟩ := (p.process it.gap).process_frame hh cls id pl a b hlen
    have hq' := congrArg Prod.fst a3
    have hr' := congrArg Prod.snd a3
    simp only [Parser.deliver, Parser.passes, hf, hq, hr] at hq' hr'
    simp only [Shape.bytes, Item.packets, hs, Shape.valid]
    refine ⟨a1, by rw [a2, hf], ?_, ?_⟩
    · rw [hq']
      by_cases hv : (frameCk cls id pl).a = a ∧ (frameCk cls id pl).b = b
      · cases hfp : filterPasses p.filter ⟨cls, id⟩ <;> simp [hv, hfp]
      · have : ((frameCk cls id pl).a == a && (frameCk cls id pl).b == b) = false := by
          simp; intro h; exact fun hb => hv ⟨h, hb⟩
        simp [hv, this]
    · rw [hr']
      by_cases hv : (frameCk cls id pl).a = a ∧ (frameCk cls id pl).b = b
      · simp [hv]
      · have : ((frameCk cls id pl).a == a && (frameCk cls id pl).b == b) = false := by
          simp; intro h; exact fun hb => hv ⟨h, hb⟩
        simp [hv, this]

/-- completeness over item streams -/
theorem Parser.process_items (p : Parser) (hst : p.st = .init) (items : List Item)
    (hok : ∀ it ∈ items, it.ok) (tail : List Nat) (htail : noSyncPair tail = true) :
    let p' := p.process ((items.flatMap Item.bytes) ++ tail)
    p'.hunting ∧ p'.filter = p.filter ∧
    p'.queue = p.queue ++ expectedPackets p.filter items ∧
    p'.framesRx = p.framesRx + validCount items := by
  induction items generalizing p with
  | nil =>
    have := p.process_gap tail (Or.inl hst) (by simp [hst]) htail
    simpa [expectedPackets, validCount] using this
  | cons it rest ih =>
    obtain ⟨b1, b2, b3, b4⟩ := p.process_item hst it (hok it (by simp))
    have := ih (p.process it.bytes) b1 (fun i hi => hok i (by simp [hi]))
    simp only [List.flatMap_cons, List.append_assoc, Parser.process_append] at this ⊢
    obtain ⟨h1, h2, h3, h4⟩ := this
    refine ⟨h1, by rw [h2, b2], ?_, ?_⟩
    · rw [h3, b2, b3]; simp [expectedPackets, List.append_assoc]
    · rw [h4, b4]
      simp only [validCount, List.filter_cons]
      split <;> simp <;> omega

end Ubx

import UbxModel.Model.Helpers
/-! Sequences of `enable_gnss` / `disable_gnss` calls (the two presets): what happens to each block. -/
namespace Ubx

def setFlags (f : Nat → Nat) (b : GnssBlock) : GnssBlock := { b with flags := f b.flags }

/-- `enable_gnss` / `disable_gnss` with the flag operation as a parameter -/
def setGnss (f : Nat → Nat) (blocks : List GnssBlock) (system : Nat) : List GnssBlock :=
  match findEntry blocks system with
  | some pos => modifyAt blocks pos f
  | none => blocks

theorem enableGnss_eq (b : List GnssBlock) (s : Nat) : enableGnss b s = setGnss flagsEnable b s := rfl
theorem disableGnss_eq (b : List GnssBlock) (s : Nat) : disableGnss b s = setGnss flagsDisable b s := rfl

theorem setGnss_get (f : Nat → Nat) (blocks : List GnssBlock) (s j : Nat) :
    (setGnss f blocks s)[j]? = (blocks[j]?).map (fun b => if findEntry blocks s = some j then setFlags f b else b) := by
  unfold setGnss
  cases h : findEntry blocks s with
  | none => cases blocks[j]? <;> simp
  | some pos =>
    show (blocks.modify pos (setFlags f))[j]? = _
    rw [List.getElem?_modify]
    cases blocks[j]? <;> simp

theorem setGnss_ids (f : Nat → Nat) (blocks : List GnssBlock) (s : Nat) :
    (setGnss f blocks s).map (·.gnssId) = blocks.map (·.gnssId) := by
  apply List.ext_getElem?
  intro j
  simp only [List.getElem?_map, setGnss_get]
  cases blocks[j]? with
  | none => rfl
  | some b => simp only [Option.map_some]; split <;> rfl

theorem findEntry_ids (b1 b2 : List GnssBlock) (h : b1.map (·.gnssId) = b2.map (·.gnssId)) (s : Nat) :
    findEntry b1 s = findEntry b2 s := by
  have e : ∀ b : List GnssBlock, findEntry b s = (b.map (·.gnssId)).findIdx? (fun g => g == s) := by
    intro b; simp only [findEntry, List.findIdx?_map]; rfl
  rw [e, e, h]

theorem findEntry_gnssId (blocks : List GnssBlock) (s j : Nat) (b : GnssBlock) (h : findEntry blocks s = some j)
    (hb : blocks[j]? = some b) : b.gnssId = s := by
  simp only [findEntry, List.findIdx?_eq_some_iff_getElem] at h
  obtain ⟨hj, h1, -⟩ := h
  rw [List.getElem?_eq_getElem hj] at hb
  cases hb
  simpa using h1

/-- a sequence of calls, each naming a system and a flag operation -/
def applyOps (ops : List (Nat × (Nat → Nat))) (blocks : List GnssBlock) : List GnssBlock :=
  ops.foldl (fun b op => setGnss op.2 b op.1) blocks

/-- **what a sequence of calls on distinct systems does to block `j`**: if `j` is the first block of a
    system named by a call, that call's operation is applied to its flags word — and nothing else
    happens to it; otherwise the block is unchanged. -/
theorem applyOps_get (ops : List (Nat × (Nat → Nat))) (hd : (ops.map (·.1)).Nodup) (blocks : List GnssBlock)
    (j : Nat) (b : GnssBlock) (hb : blocks[j]? = some b) :
    (∀ op ∈ ops, findEntry blocks op.1 = some j → (applyOps ops blocks)[j]? = some (setFlags op.2 b)) ∧
    ((∀ op ∈ ops, findEntry blocks op.1 ≠ some j) → (applyOps ops blocks)[j]? = some b) := by
  induction ops generalizing blocks b with
  | nil => exact ⟨fun op h => by simp at h, fun _ => hb⟩
  | cons op rest ih =>
    have hd' : (rest.map (·.1)).Nodup := (List.nodup_cons.mp hd).2
    have hnot : ∀ op' ∈ rest, op'.1 ≠ op.1 := by
      intro op' hm e
      exact (List.nodup_cons.mp hd).1 (by show op.1 ∈ _; rw [← e]; exact List.mem_map_of_mem (f := (·.1)) hm)
    have hfe : ∀ s, findEntry (setGnss op.2 blocks op.1) s = findEntry blocks s :=
      fun s => findEntry_ids _ _ (setGnss_ids op.2 blocks op.1) s
    have hget := setGnss_get op.2 blocks op.1 j
    rw [hb, Option.map_some] at hget
    show (∀ op' ∈ op :: rest, _ → (applyOps rest (setGnss op.2 blocks op.1))[j]? = _) ∧
      (_ → (applyOps rest (setGnss op.2 blocks op.1))[j]? = _)
    constructor
    · intro op0 hm h0
      rcases List.mem_cons.mp hm with e | hm'
      · subst e
        rw [if_pos h0] at hget
        refine (ih hd' _ _ hget).2 (fun op' hm' h' => ?_)
        rw [hfe] at h'
        exact hnot op' hm' ((findEntry_gnssId blocks _ j b h' hb).symm.trans (findEntry_gnssId blocks _ j b h0 hb))
      · have hne : findEntry blocks op.1 ≠ some j := fun h' =>
          hnot op0 hm' ((findEntry_gnssId blocks _ j b h0 hb).symm.trans (findEntry_gnssId blocks _ j b h' hb))
        rw [if_neg hne] at hget
        exact (ih hd' _ _ hget).1 op0 hm' (by rw [hfe]; exact h0)
    · intro hall
      rw [if_neg (hall op (by simp))] at hget
      exact (ih hd' _ _ hget).2 (fun op' hm' => by rw [hfe]; exact hall op' (by simp [hm']))

theorem applyOps_length (ops : List (Nat × (Nat → Nat))) (blocks : List GnssBlock) :
    (applyOps ops blocks).length = blocks.length := by
  induction ops generalizing blocks with
  | nil => rfl
  | cons op rest ih =>
    show (applyOps rest (setGnss op.2 blocks op.1)).length = _
    rw [ih]
    have := congrArg List.length (setGnss_ids op.2 blocks op.1)
    simpa using this

/-- the same, as one equation: block `j` is touched only if it is the first block of its system, and
    then by the one call that names that system -/
theorem preset_get (ops : List (Nat × (Nat → Nat))) (hd : (ops.map (·.1)).Nodup) (blocks : List GnssBlock)
    (j : Nat) (b : GnssBlock) (hb : blocks[j]? = some b) :
    (applyOps ops blocks)[j]? = some (match ops.find? (fun op => op.1 == b.gnssId) with
      | some op => if findEntry blocks b.gnssId = some j then setFlags op.2 b else b
      | none => b) := by
  obtain ⟨h1, h2⟩ := applyOps_get ops hd blocks j b hb
  cases hfind : ops.find? (fun op => op.1 == b.gnssId) with
  | some op =>
    have hm : op ∈ ops := List.mem_of_find?_eq_some hfind
    have he : op.1 = b.gnssId := by simpa using List.find?_some hfind
    simp only
    by_cases hfirst : findEntry blocks b.gnssId = some j
    · rw [if_pos hfirst]; exact h1 op hm (by rw [he]; exact hfirst)
    · rw [if_neg hfirst]
      exact h2 (fun op' _ h' => hfirst (by rw [findEntry_gnssId blocks _ j b h' hb]; exact h'))
  | none =>
    simp only
    refine h2 (fun op' hm' h' => ?_)
    have := List.find?_eq_none.mp hfind op' hm'
    exact this (by simpa using (findEntry_gnssId blocks _ j b h' hb).symm)

end Ubx

import UbxModel.Model.ParserNmea
import UbxModel.Spec.Nmea
namespace Nmea
open Spec.Nmea

theorem toBin_eq (c : Nat) : toBin c = hexVal c := by
  unfold toBin hexVal
  split
  · rfl
  · split
    · rename_i h1 h2
      have : ¬ (65 ≤ c ∧ c ≤ 70) := by omega
      simp [this, h2]
    · split <;> simp_all

theorem shl4 (v : Nat) : v <<< 4 = 16 * v := by rw [Nat.shiftLeft_eq]; omega

theorem P.process_append (p : P) (xs ys : List Nat) : p.process (xs ++ ys) = (p.process xs).process ys := by
  simp [P.process, List.foldl_append]

/-- chunking independence -/
theorem P.process_chunks (p : P) (chunks : List (List Nat)) :
    chunks.foldl P.process p = p.process chunks.flatten := by
  induction chunks generalizing p with
  | nil => rfl
  | cons c cs ih => simp [List.flatten_cons, P.process_append, ih]

/-- what the sentence in progress will still contribute, given the remaining input -/
def pend (p : P) (s : List Nat) : Nat :=
  match p.st with
  | .waitSync => 0
  | .lineEnd => 0
  | .data => if completes p.acc s then 1 else 0
  | .chk1 =>
    match s with
    | h1 :: h2 :: _ =>
      (match hexVal h1, hexVal h2 with
       | some v1, some v2 => if 16 * v1 + v2 = p.acc then 1 else 0
       | _, _ => 0)
    | _ => 0
  | .chk2 =>
    match s with
    | h2 :: _ =>
      (match hexVal h2 with
       | some v2 => if p.cs + v2 = p.acc then 1 else 0
       | none => 0)
    | _ => 0

theorem hexVal_dollar : hexVal DOLLAR = none := by decide
theorem hexVal_star : hexVal STAR = none := by decide

theorem count_cons_ne (c : Nat) (rest : List Nat) (h : c ≠ DOLLAR) : count (c :: rest) = count rest := by
  simp [count, h]

theorem count_general (p : P) (s : List Nat) :
    (p.process s).framesRx = p.framesRx + pend p s + count s := by
  induction s generalizing p with
  | nil => cases h : p.st <;> simp [P.process, pend, count, h, completes]
  | cons c rest ih =>
    show ((p.step c).process rest).framesRx = _
    rw [ih]
    by_cases hd : c = DOLLAR
    · subst hd
      have hs : p.step DOLLAR = { p with st := .data, cs := 0, acc := 0 } := by simp [P.step]
      have hp : pend p (DOLLAR :: rest) = 0 := by
        unfold pend
        cases p.st with
        | waitSync => rfl
        | lineEnd => rfl
        | data => simp [completes]
        | chk1 => cases rest <;> simp [hexVal_dollar]
        | chk2 => simp [hexVal_dollar]
      rw [hs, hp]
      simp [pend, count]
      omega
    · rw [count_cons_ne c rest hd]
      cases hst : p.st with
      | waitSync =>
        have hs : p.step c = p := by simp [P.step, hd, hst]
        rw [hs]; simp [pend, hst]
      | lineEnd =>
        by_cases hn : c = NL
        · have hs : p.step c = { p with st := .waitSync } := by subst hn; simp [P.step, hst, hd]
          rw [hs]; simp [pend, hst]
        · have hs : p.step c = p := by simp [P.step, hd, hst, hn]
          rw [hs]; simp [pend, hst]
      | data =>
        by_cases hstar : c = STAR
        · have hs : p.step c = { p with st := .chk1 } := by subst hstar; simp [P.step, hst, hd]
          rw [hs]
          subst hstar
          have : (STAR = DOLLAR) = False := by decide
          simp only [pend, hst, completes, this, if_false, if_true]
          cases rest with
          | nil => simp
          | cons h1 r1 =>
            cases r1 with
            | nil => simp
            | cons h2 r2 =>
              cases hb1 : hexVal h1 <;> cases hb2 : hexVal h2 <;> simp [hb1, hb2]
        · have hs : p.step c = { p with acc := p.acc ^^^ c } := by simp [P.step, hd, hst, hstar]
          rw [hs]
          simp [pend, hst, completes, hd, hstar]
      | chk1 =>
        cases hb : hexVal c with
        | none =>
          have hs : p.step c = { p with st := .waitSync } := by simp [P.step, hd, hst, toBin_eq, hb]
          rw [hs]
          simp only [pend, hst]
          cases rest <;> simp [hb]
        | some v =>
          have hs : p.step c = { p with cs := 16 * v, st := .chk2 } := by simp [P.step, hd, hst, toBin_eq, hb, shl4]
          rw [hs]
          simp only [pend, hst]
          cases rest with
          | nil => simp
          | cons h2 r2 => cases hb2 : hexVal h2 <;> simp [hb, hb2]
      | chk2 =>
        cases hb : hexVal c with
        | none =>
          have hs : p.step c = { p with st := .waitSync } := by simp [P.step, hd, hst, toBin_eq, hb]
          rw [hs]
          simp [pend, hst, hb]
        | some v =>
          by_cases hok : p.cs + v = p.acc
          · have hs : p.step c = { p with cs := p.cs + v, st := .lineEnd, framesRx := p.framesRx + 1 } := by
              simp [P.step, hd, hst, toBin_eq, hb, hok]
            rw [hs]
            simp [pend, hst, hb, hok]
          · have hs : p.step c = { p with cs := p.cs + v, st := .lineEnd } := by
              simp [P.step, hd, hst, toBin_eq, hb, hok]
            rw [hs]
            simp [pend, hst, hb, hok]

theorem count_fresh (s : List Nat) : (P.fresh.process s).framesRx = count s := by
  have := count_general P.fresh s
  simpa [pend, P.fresh] using this

end Nmea

namespace Nmea
open Spec.Nmea

/-- after `restart()` the parser treats all further input like a new parser; the count is kept -/
theorem restart_equiv (p : P) (s : List Nat) :
    (p.restart.process s).framesRx = p.framesRx + (P.fresh.process s).framesRx ∧
    (p.restart.process s).st = (P.fresh.process s).st := by
  have key : ∀ (s : List Nat) (a b : P), a.st = b.st → (a.st = .waitSync ∨ a.st = .lineEnd ∨ (a.cs = b.cs ∧ a.acc = b.acc)) →
      (a.process s).framesRx + b.framesRx = (b.process s).framesRx + a.framesRx ∧ (a.process s).st = (b.process s).st := by
    intro s
    induction s with
    | nil => intro a b h _; exact ⟨by simp [P.process]; omega, by simpa [P.process] using h⟩
    | cons c rest ih =>
      intro a b hst hfr
      show ((a.step c).process rest).framesRx + b.framesRx = ((b.step c).process rest).framesRx + a.framesRx ∧
        ((a.step c).process rest).st = ((b.step c).process rest).st
      by_cases hd : c = DOLLAR
      · have ha : a.step c = { a with st := .data, cs := 0, acc := 0 } := by simp [P.step, hd]
        have hb : b.step c = { b with st := .data, cs := 0, acc := 0 } := by simp [P.step, hd]
        have := ih (a.step c) (b.step c) (by rw [ha, hb]) (by rw [ha, hb]; simp)
        rw [ha, hb] at this ⊢
        simpa using this
      · cases hs : a.st with
        | waitSync =>
          have hb' : b.st = .waitSync := by rw [← hst, hs]
          have ha : a.step c = a := by simp [P.step, hd, hs]
          have hb : b.step c = b := by simp [P.step, hd, hb']
          rw [ha, hb]; exact ih a b hst (Or.inl hs)
        | lineEnd =>
          have hb' : b.st = .lineEnd := by rw [← hst, hs]
          by_cases hn : c = NL
          · have ha : a.step c = { a with st := .waitSync } := by subst hn; simp [P.step, hs, hd]
            have hb : b.step c = { b with st := .waitSync } := by subst hn; simp [P.step, hb', hd]
            have := ih (a.step c) (b.step c) (by rw [ha, hb]) (by rw [ha]; simp)
            rw [ha, hb] at this ⊢; simpa using this
          · have ha : a.step c = a := by simp [P.step, hd, hs, hn]
            have hb : b.step c = b := by simp [P.step, hd, hb', hn]
            rw [ha, hb]; exact ih a b hst (Or.inr (Or.inl hs))
        | data =>
          have hb' : b.st = .data := by rw [← hst, hs]
          obtain ⟨h1, h2⟩ : a.cs = b.cs ∧ a.acc = b.acc := by
            rcases hfr with h | h | h
            · rw [hs] at h; cases h
            · rw [hs] at h; cases h
            · exact h
          by_cases hstar : c = STAR
          · have ha : a.step c = { a with st := .chk1 } := by subst hstar; simp [P.step, hs, hd]
            have hb : b.step c = { b with st := .chk1 } := by subst hstar; simp [P.step, hb', hd]
            have := ih (a.step c) (b.step c) (by rw [ha, hb]) (by rw [ha, hb]; simp [h1, h2])
            rw [ha, hb] at this ⊢; simpa using this
          · have ha : a.step c = { a with acc := a.acc ^^^ c } := by simp [P.step, hd, hs, hstar]
            have hb : b.step c = { b with acc := b.acc ^^^ c } := by simp [P.step, hd, hb', hstar]
            have := ih (a.step c) (b.step c) (by rw [ha, hb]; exact hst) (by rw [ha, hb]; simp [h1, h2])
            rw [ha, hb] at this ⊢; simpa using this
        | chk1 =>
          have hb' : b.st = .chk1 := by rw [← hst, hs]
          obtain ⟨h1, h2⟩ : a.cs = b.cs ∧ a.acc = b.acc := by
            rcases hfr with h | h | h
            · rw [hs] at h; cases h
            · rw [hs] at h; cases h
            · exact h
          cases hbin : toBin c with
          | none =>
            have ha : a.step c = { a with st := .waitSync } := by simp [P.step, hd, hs, hbin]
            have hb : b.step c = { b with st := .waitSync } := by simp [P.step, hd, hb', hbin]
            have := ih (a.step c) (b.step c) (by rw [ha, hb]) (by rw [ha]; simp)
            rw [ha, hb] at this ⊢; simpa using this
          | some v =>
            have ha : a.step c = { a with cs := v <<< 4, st := .chk2 } := by simp [P.step, hd, hs, hbin]
            have hb : b.step c = { b with cs := v <<< 4, st := .chk2 } := by simp [P.step, hd, hb', hbin]
            have := ih (a.step c) (b.step c) (by rw [ha, hb]) (by rw [ha, hb]; simp [h2])
            rw [ha, hb] at this ⊢; simpa using this
        | chk2 =>
          have hb' : b.st = .chk2 := by rw [← hst, hs]
          obtain ⟨h1, h2⟩ : a.cs = b.cs ∧ a.acc = b.acc := by
            rcases hfr with h | h | h
            · rw [hs] at h; cases h
            · rw [hs] at h; cases h
            · exact h
          cases hbin : toBin c with
          | none =>
            have ha : a.step c = { a with st := .waitSync } := by simp [P.step, hd, hs, hbin]
            have hb : b.step c = { b with st := .waitSync } := by simp [P.step, hd, hb', hbin]
            have := ih (a.step c) (b.step c) (by rw [ha, hb]) (by rw [ha]; simp)
            rw [ha, hb] at this ⊢; simpa using this
          | some v =>
            by_cases hok : a.cs + v = a.acc
            · have hok' : b.cs + v = b.acc := by rw [← h1, ← h2]; exact hok
              have ha : a.step c = { a with cs := a.cs + v, st := .lineEnd, framesRx := a.framesRx + 1 } := by
                simp [P.step, hd, hs, hbin, hok]
              have hb : b.step c = { b with cs := b.cs + v, st := .lineEnd, framesRx := b.framesRx + 1 } := by
                simp [P.step, hd, hb', hbin, hok']
              have := ih (a.step c) (b.step c) (by rw [ha, hb]) (by rw [ha]; simp)
              rw [ha, hb] at this ⊢
              dsimp only at this ⊢
              exact ⟨by omega, this.2⟩
            · have hok' : ¬ (b.cs + v = b.acc) := by rw [← h1, ← h2]; exact hok
              have ha : a.step c = { a with cs := a.cs + v, st := .lineEnd } := by
                simp [P.step, hd, hs, hbin, hok]
              have hb : b.step c = { b with cs := b.cs + v, st := .lineEnd } := by
                simp [P.step, hd, hb', hbin, hok']
              have := ih (a.step c) (b.step c) (by rw [ha, hb]) (by rw [ha]; simp)
              rw [ha, hb] at this ⊢; simpa using this
  have := key s p.restart P.fresh rfl (Or.inl rfl)
  have h0 : P.fresh.framesRx = 0 := rfl
  have h1 : p.restart.framesRx = p.framesRx := rfl
  rw [h0, h1] at this
  exact ⟨by omega, this.2⟩

end Nmea

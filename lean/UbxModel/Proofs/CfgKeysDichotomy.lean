import UbxModel.Proofs.CfgKeysRoundtrip
namespace Ubx
open Spec
variable [KeyTable]

/-- the size code always indexes the 8-entry table: `bitsFromKey` cannot fail, and yields 0 or a valid size -/
theorem bitsFromKey_total (k : Nat) : ∃ bits, bitsFromKey k = .ok bits ∧ (bits = 0 ∨ validBits bits) ∧
    (validBits bits → sizeCode bits = (k >>> 28) &&& 0x7) := by
  have h7 : (k >>> 28) &&& 0x7 < 8 := by rw [and_7]; omega
  obtain ⟨s, hs⟩ : ∃ s, (k >>> 28) &&& 0x7 = s := ⟨_, rfl⟩
  rw [hs] at h7
  simp only [bitsFromKey, hs]
  have : s = 0 ∨ s = 1 ∨ s = 2 ∨ s = 3 ∨ s = 4 ∨ s = 5 ∨ s = 6 ∨ s = 7 := by omega
  rcases this with rfl | rfl | rfl | rfl | rfl | rfl | rfl | rfl
  · exact ⟨0, by simp [bitsFromSize_eq], Or.inl rfl, by simp [validBits]⟩
  · exact ⟨1, by simp [bitsFromSize_eq], Or.inr (by simp [validBits]), fun _ => rfl⟩
  · exact ⟨8, by simp [bitsFromSize_eq], Or.inr (by simp [validBits]), fun _ => rfl⟩
  · exact ⟨16, by simp [bitsFromSize_eq], Or.inr (by simp [validBits]), fun _ => rfl⟩
  · exact ⟨32, by simp [bitsFromSize_eq], Or.inr (by simp [validBits]), fun _ => rfl⟩
  · exact ⟨64, by simp [bitsFromSize_eq], Or.inr (by simp [validBits]), fun _ => rfl⟩
  · exact ⟨0, by simp [bitsFromSize_eq], Or.inl rfl, by simp [validBits]⟩
  · exact ⟨0, by simp [bitsFromSize_eq], Or.inl rfl, by simp [validBits]⟩

theorem bytesForSize_zero : bytesForSize 0 = .error .valueError := by
  simp [bytesForSize, bytesFromBits_eq, List.find?]

theorem unpackValue_zero (signed : Bool) (data : List Nat) : unpackValue 0 signed data = .error .valueError := by
  simp [unpackValue, bytesForSize_zero]

/-- the value part, other direction: whatever `_unpack_value` accepts, `_pack_value` reproduces -/
theorem value_dichotomy (bits : Nat) (hb : validBits bits) (signed : Bool) (data : List Nat) (hd : Bytes data) :
    structToValue (unpackValue bits signed data) = .error .valueError ∨
    ∃ v, unpackValue bits signed data = .ok (v, valueBytes bits) ∧ valueBytes bits ≤ data.length ∧
      (bits = 1 → v = 0 ∨ v = 1) ∧
      ∀ g i, CfgItem.packValue { group := g, item := i, bits := bits, signed := signed, value := v }
        = .ok (data.take (valueBytes bits)) := by
  have hbs := bytesForSize_valid bits hb
  have hbt : ∀ w, Bytes (data.take w) := fun w b hbm => hd b (List.mem_of_mem_take hbm)
  by_cases hlen : data.length < valueBytes bits
  · -- too short: struct.error → ValueError
    left
    have hsU : ∀ w, data.length < w → unpackU w (data.take w) = .error .structError := by
      intro w hw; simp [unpackU, List.length_take]; omega
    have hsI : ∀ w, data.length < w → unpackI w (data.take w) = .error .structError := by
      intro w hw; simp [unpackI, List.length_take]; omega
    rcases hb with rfl | rfl | rfl | rfl | rfl <;>
      simp only [valueBytes, Nat.reduceEqDiff, if_true, if_false] at hlen hbs <;>
      cases signed <;>
      simp [unpackValue, hbs, hsU _ hlen, hsI _ hlen, structToValue, Except.map]
  · have hlen' : valueBytes bits ≤ data.length := by omega
    rcases hb with rfl | rfl | rfl | rfl | rfl
    · -- one bit
      simp only [valueBytes, if_true] at hlen' hbs
      obtain ⟨v, h1, h2⟩ := packU_unpackU 1 (data.take 1) (hbt 1) (by simp; omega)
      by_cases hv0 : v = 0
      · right
        refine ⟨0, ?_, by simpa [valueBytes] using hlen', fun _ => Or.inl rfl, ?_⟩
        · simp [unpackValue, hbs, List.take_take, h1, hv0, valueBytes]
        · intro g i; simp only [CfgItem.packValue, if_true, valueBytes]
          simpa [hv0] using h2
      · by_cases hv1 : v = 1
        · right
          refine ⟨1, ?_, by simpa [valueBytes] using hlen', fun _ => Or.inr rfl, ?_⟩
          · simp [unpackValue, hbs, List.take_take, h1, hv1, valueBytes]
          · intro g i; simp only [CfgItem.packValue, if_true, valueBytes]
            simpa [hv1] using h2
        · left
          simp [unpackValue, hbs, List.take_take, h1, hv0, hv1, structToValue]
    · -- 8 bits
      simp only [valueBytes, Nat.reduceEqDiff, if_true, if_false] at hlen' hbs ⊢
      right
      cases signed
      · obtain ⟨v, h1, h2⟩ := packU_unpackU 1 (data.take 1) (hbt 1) (by simp; omega)
        exact ⟨v, by simp [unpackValue, hbs, h1, Except.map], hlen', by simp,
          fun g i => by simpa [CfgItem.packValue] using h2⟩
      · obtain ⟨v, h1, h2⟩ := packI_unpackI 1 (by decide) (data.take 1) (hbt 1) (by simp; omega)
        exact ⟨v, by simp [unpackValue, hbs, h1, Except.map], hlen', by simp,
          fun g i => by simpa [CfgItem.packValue] using h2⟩
    · -- 16 bits
      simp only [valueBytes, Nat.reduceEqDiff, if_true, if_false] at hlen' hbs ⊢
      right
      cases signed
      · obtain ⟨v, h1, h2⟩ := packU_unpackU 2 (data.take 2) (hbt 2) (by simp; omega)
        exact ⟨v, by simp [unpackValue, hbs, h1, Except.map], hlen', by simp,
          fun g i => by simpa [CfgItem.packValue] using h2⟩
      · obtain ⟨v, h1, h2⟩ := packI_unpackI 2 (by decide) (data.take 2) (hbt 2) (by simp; omega)
        exact ⟨v, by simp [unpackValue, hbs, h1, Except.map], hlen', by simp,
          fun g i => by simpa [CfgItem.packValue] using h2⟩
    · -- 32 bits
      simp only [valueBytes, Nat.reduceEqDiff, if_true, if_false] at hlen' hbs ⊢
      right
      cases signed
      · obtain ⟨v, h1, h2⟩ := packU_unpackU 4 (data.take 4) (hbt 4) (by simp; omega)
        exact ⟨v, by simp [unpackValue, hbs, h1, Except.map], hlen', by simp,
          fun g i => by simpa [CfgItem.packValue] using h2⟩
      · obtain ⟨v, h1, h2⟩ := packI_unpackI 4 (by decide) (data.take 4) (hbt 4) (by simp; omega)
        exact ⟨v, by simp [unpackValue, hbs, h1, Except.map], hlen', by simp,
          fun g i => by simpa [CfgItem.packValue] using h2⟩
    · -- 64 bits
      simp only [valueBytes, Nat.reduceEqDiff, if_true, if_false] at hlen' hbs ⊢
      right
      cases signed
      · obtain ⟨v, h1, h2⟩ := packU_unpackU 8 (data.take 8) (hbt 8) (by simp; omega)
        exact ⟨v, by simp [unpackValue, hbs, h1, Except.map], hlen', by simp,
          fun g i => by simpa [CfgItem.packValue] using h2⟩
      · obtain ⟨v, h1, h2⟩ := packI_unpackI 8 (by decide) (data.take 8) (hbt 8) (by simp; omega)
        exact ⟨v, by simp [unpackValue, hbs, h1, Except.map], hlen', by simp,
          fun g i => by simpa [CfgItem.packValue] using h2⟩

end Ubx

namespace Ubx
open Spec
variable [KeyTable]

/-- **C14 (dichotomy).** Decoding any byte string either raises `ValueError`, or yields an item and
    a length `n ≤ |s|` such that encoding the item gives the key id rebuilt from its three fields
    (the reserved bits cleared) followed by exactly the value bytes that were read. -/
theorem unpack_dichotomy (s : List Nat) (hs : Bytes s) :
    CfgItem.unpack s = .error .valueError ∨
    ∃ item n, CfgItem.unpack s = .ok (item, n) ∧ n = 4 + valueBytes item.bits ∧ n ≤ s.length ∧
      validBits item.bits ∧ (item.bits = 1 → item.value = 0 ∨ item.value = 1) ∧
      item.pack = .ok (leBytes 4 (sizeCode item.bits * 2 ^ 28 + item.group.toNat * 2 ^ 16 + item.item.toNat)
                        ++ (s.drop 4).take (valueBytes item.bits)) := by
  unfold CfgItem.unpack
  by_cases hlen : s.length < 4
  · left; rw [if_pos hlen]
  · rw [if_neg hlen]
    have hu : unpackU 4 (s.take 4) = .ok ((leVal (s.take 4) : Nat) : Int) := by
      simp [unpackU, List.length_take, List.take_take]; omega
    rw [hu, bind_ok]
    simp only [Int.toNat_natCast]
    generalize hk : leVal (s.take 4) = k
    obtain ⟨bits, hb1, hb2, hb3⟩ := bitsFromKey_total k
    rw [hb1, bind_ok]
    rcases hb2 with rfl | hvb
    · left; rw [unpackValue_zero]; rfl
    · have hd : Bytes (s.drop 4) := fun b hbm => hs b (List.mem_of_mem_drop hbm)
      rcases value_dichotomy bits hvb (keySigned k) (s.drop 4) hd with hl | ⟨v, hv1, hv2, hv3, hv4⟩
      · left; rw [hl]; rfl
      · right
        rw [hv1]
        simp only [structToValue, bind_ok, pure, Except.pure]
        refine ⟨_, _, rfl, rfl, by simp at hv2 ⊢; omega, hvb, hv3, ?_⟩
        have hgl : groupFromKey k < 256 := by simp only [groupFromKey]; rw [and_ff]; omega
        have hil : itemFromKey k < 4096 := by simp only [itemFromKey]; rw [and_fff]; omega
        have hg : ¬ (((groupFromKey k : Nat) : Int) < 0 ∨ ((groupFromKey k : Nat) : Int) > 0xFF) := by omega
        have hi : ¬ (((itemFromKey k : Nat) : Int) < 0 ∨ ((itemFromKey k : Nat) : Int) > 0xFFF) := by omega
        obtain ⟨hpe, -⟩ := pack_eq { group := groupFromKey k, item := itemFromKey k, bits := bits, signed := keySigned k, value := v }
          hg hi hvb _ rfl
        rw [hpe, hv4, bind_ok]
        rfl

/-- too-short data, size codes 0, 6, 7 and one-bit values other than 0/1 raise `ValueError` -/
theorem unpack_too_short (s : List Nat) (h : s.length < 4) : CfgItem.unpack s = .error .valueError := by
  simp [CfgItem.unpack, h]

end Ubx

import UbxModel.Model.CfgKeys
import UbxModel.Proofs.Codec
namespace Ubx
open Spec

/-! the generated size tables, as literals (these equations break when the code's tables change) -/
theorem bitsFromSize_eq : Gen.bitsFromSize = [0, 1, 8, 16, 32, 64, 0, 0] := rfl
theorem sizeFromBits_eq : Gen.sizeFromBits = [(1, 1), (8, 2), (16, 3), (32, 4), (64, 5)] := rfl
theorem bytesFromBits_eq : Gen.bytesFromBits = [(1, 1), (8, 1), (16, 2), (32, 4), (64, 8)] := rfl

theorem and_ff (n : Nat) : n &&& 0xFF = n % 256 := by
  have := Nat.and_two_pow_sub_one_eq_mod n 8; simpa using this
theorem and_fff (n : Nat) : n &&& 0xFFF = n % 4096 := by
  have := Nat.and_two_pow_sub_one_eq_mod n 12; simpa using this
theorem and_7 (n : Nat) : n &&& 0x7 = n % 8 := by
  have := Nat.and_two_pow_sub_one_eq_mod n 3; simpa using this

/-- size code of a value width -/
def sizeCode (bits : Nat) : Nat :=
  if bits = 1 then 1 else if bits = 8 then 2 else if bits = 16 then 3 else if bits = 32 then 4 else if bits = 64 then 5 else 0

def validBits (bits : Nat) : Prop := bits = 1 ∨ bits = 8 ∨ bits = 16 ∨ bits = 32 ∨ bits = 64

/-- number of value bytes on the wire -/
def valueBytes (bits : Nat) : Nat :=
  if bits = 1 then 1 else if bits = 8 then 1 else if bits = 16 then 2 else if bits = 32 then 4 else if bits = 64 then 8 else 0

theorem buildHeader_valid (g i bits : Nat) (hb : validBits bits) :
    buildHeader g i bits = .ok (((sizeCode bits &&& 0x7) <<< 28) ||| ((g &&& 0xFF) <<< 16) ||| ((i &&& 0xFFF) <<< 0)) := by
  rcases hb with rfl | rfl | rfl | rfl | rfl <;> simp [buildHeader, sizeFromBits_eq, sizeCode, List.find?]

theorem buildHeader_invalid (g i bits : Nat) (hb : ¬ validBits bits) : buildHeader g i bits = .error .valueError := by
  simp only [validBits, not_or] at hb
  obtain ⟨h1, h2, h3, h4, h5⟩ := hb
  have e1 : (1 == bits) = false := by simp; omega
  have e2 : (8 == bits) = false := by simp; omega
  have e3 : (16 == bits) = false := by simp; omega
  have e4 : (32 == bits) = false := by simp; omega
  have e5 : (64 == bits) = false := by simp; omega
  simp [buildHeader, sizeFromBits_eq, List.find?, e1, e2, e3, e4, e5]

/-- the key id as a number: size code · 2²⁸ + group · 2¹⁶ + item -/
theorem header_eq (g i s : Nat) (hg : g < 256) (hi : i < 4096) (hs : s < 8) :
    ((s &&& 0x7) <<< 28) ||| ((g &&& 0xFF) <<< 16) ||| ((i &&& 0xFFF) <<< 0) = s * 2 ^ 28 + g * 2 ^ 16 + i := by
  rw [and_ff, and_fff, and_7, Nat.mod_eq_of_lt hg, Nat.mod_eq_of_lt hi, Nat.mod_eq_of_lt hs]
  simp only [Nat.shiftLeft_zero]
  rw [Nat.or_assoc]
  have h1 : g <<< 16 ||| i = g <<< 16 + i := (Nat.shiftLeft_add_eq_or_of_lt (by omega : i < 2 ^ 16) g).symm
  rw [h1]
  have h2 : g <<< 16 + i < 2 ^ 28 := by rw [Nat.shiftLeft_eq]; omega
  rw [← Nat.shiftLeft_add_eq_or_of_lt h2 s, Nat.shiftLeft_eq, Nat.shiftLeft_eq]
  omega

/-- the three bit fields of a key id built from (group, item, size code) -/
theorem key_fields (g i s : Nat) (hg : g < 256) (hi : i < 4096) (hs : s < 8) :
    let k := s * 2 ^ 28 + g * 2 ^ 16 + i
    groupFromKey k = g ∧ itemFromKey k = i ∧ (k >>> 28) &&& 0x7 = s ∧ k < 2 ^ 32 := by
  intro k
  simp only [groupFromKey, itemFromKey, k]
  rw [and_ff, and_fff, and_7]
  simp only [Nat.shiftRight_eq_div_pow]
  refine ⟨?_, ?_, ?_, ?_⟩ <;> omega

/-- a key id whose reserved bits (31, 27..24, 15..12) are zero -/
def reservedZero (k : Nat) : Prop := k < 2 ^ 31 ∧ (k / 2 ^ 24) % 16 = 0 ∧ (k / 2 ^ 12) % 16 = 0

/-- such a key id is determined by its three fields -/
theorem key_decompose (k : Nat) (h : reservedZero k) :
    k = ((k >>> 28) &&& 0x7) * 2 ^ 28 + groupFromKey k * 2 ^ 16 + itemFromKey k := by
  obtain ⟨h1, h2, h3⟩ := h
  simp only [groupFromKey, itemFromKey]
  rw [and_ff, and_fff, and_7]
  simp only [Nat.shiftRight_eq_div_pow]
  omega

end Ubx

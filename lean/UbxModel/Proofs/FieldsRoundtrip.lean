import UbxModel.Proofs.Fields
namespace Ubx
open Spec

/-- the bytes an item re-encodes to: zeros for padding, otherwise the bytes it was read from -/
def Kind.image (k : Kind) (data : List Nat) : List Nat :=
  match k with
  | .pad m => List.replicate m 0
  | k => data.take k.width

/-- the payload with its reserved (padding) ranges zeroed -/
def Table.zeroReserved : Table → List Nat → List Nat
  | [], _ => []
  | (_, k) :: r, pl => k.image pl ++ Table.zeroReserved r (pl.drop k.width)

/-- signed items have at least one byte (true of every generated table; decidable) -/
def Table.wf (t : Table) : Prop := ∀ x ∈ t, ∀ w, x.2 = Kind.sint w → 0 < w

theorem dropWhile_zero_append (s : List Nat) :
    ∃ k, s = List.replicate k 0 ++ s.dropWhile (· == 0) ∧ k + (s.dropWhile (· == 0)).length = s.length := by
  induction s with
  | nil => exact ⟨0, by simp⟩
  | cons x xs ih =>
    by_cases hx : x = 0
    · obtain ⟨k, h1, h2⟩ := ih
      refine ⟨k + 1, ?_, ?_⟩
      · subst hx
        simp only [List.dropWhile_cons, beq_self_eq_true, if_true, List.replicate_succ, List.cons_append]
        rw [← h1]
      · subst hx; simp [List.dropWhile_cons]; omega
    · refine ⟨0, ?_, ?_⟩ <;> simp [List.dropWhile_cons, hx]

/-- `rstrip` followed by NUL padding to the original length restores the text -/
theorem stripNuls_pad (s : List Nat) :
    stripNuls s ++ List.replicate (s.length - (stripNuls s).length) 0 = s ∧ (stripNuls s).length ≤ s.length := by
  obtain ⟨k, h1, h2⟩ := dropWhile_zero_append s.reverse
  have hlen : (stripNuls s).length = (s.reverse.dropWhile (· == 0)).length := by simp [stripNuls]
  have hk : s.length - (stripNuls s).length = k := by
    rw [hlen]; simp at h2; omega
  constructor
  · rw [hk]
    have := congrArg List.reverse h1
    simp only [List.reverse_reverse, List.reverse_append, List.reverse_replicate] at this
    exact this.symm
  · rw [hlen]; simp at h2; omega

theorem stripNuls_ascii (s : List Nat) (h : s.any (· ≥ 128) = false) : (stripNuls s).any (· ≥ 128) = false := by
  simp only [List.any_eq_false] at h ⊢
  intro x hx
  apply h x
  simp only [stripNuls, List.mem_reverse] at hx
  have := List.dropWhile_sublist (· == 0) (l := s.reverse)
  exact List.mem_reverse.mp (this.subset hx)

/-- one item: what was unpacked packs back to the bytes it was read from (zeros for padding) -/
theorem pack_unpack_item (k : Kind) (data : List Nat) (hb : Bytes data) (hl : k.width ≤ data.length)
    (hw : ∀ w, k = Kind.sint w → 0 < w) (v : Val) (n : Nat) (h : k.unpack data = .ok (v, n)) :
    k.pack v = .ok (k.image data) := by
  have hbt : ∀ w, Bytes (data.take w) := fun w b hbm => hb b (List.mem_of_mem_take hbm)
  cases k with
  | uint w =>
    simp only [Kind.width] at hl
    have hnl : ¬ data.length < w := by omega
    obtain ⟨v', h1, h2⟩ := packU_unpackU w (data.take w) (hbt w) (by simp; omega)
    have hv' : v' = (leVal (data.take w) : Int) := by
      simp only [unpackU, List.length_take] at h1
      have : ¬ min w data.length < w := by omega
      simp [this, List.take_take] at h1
      exact h1.symm
    simp only [Kind.unpack, unpackU, if_neg hnl, Except.map, Except.ok.injEq, Prod.mk.injEq] at h
    obtain ⟨rfl, -⟩ := h
    simp only [Kind.pack, Kind.image, Kind.width]
    rw [← hv']; exact h2
  | sint w =>
    simp only [Kind.width] at hl
    have hnl : ¬ data.length < w := by omega
    obtain ⟨v', h1, h2⟩ := packI_unpackI w (hw w rfl) (data.take w) (hbt w) (by simp; omega)
    have hv' : v' = toSigned w (leVal (data.take w)) := by
      simp only [unpackI, List.length_take] at h1
      have : ¬ min w data.length < w := by omega
      simp [this, List.take_take] at h1
      exact h1.symm
    simp only [Kind.unpack, unpackI, if_neg hnl, Except.map, Except.ok.injEq, Prod.mk.injEq] at h
    obtain ⟨rfl, -⟩ := h
    simp only [Kind.pack, Kind.image, Kind.width]
    rw [← hv']; exact h2
  | pad m => simp [Kind.pack, Kind.image]
  | text m =>
    simp only [Kind.width] at hl
    simp only [Kind.unpack] at h
    have hnl : ¬ data.length < m := by omega
    rw [if_neg hnl] at h
    split at h
    · cases h
    · simp only [Except.ok.injEq, Prod.mk.injEq] at h
      obtain ⟨rfl, -⟩ := h
      obtain ⟨p1, p2⟩ := stripNuls_pad (data.take m)
      have hlen : (data.take m).length = m := by simp; omega
      rw [hlen] at p1 p2
      simp only [Kind.pack, Kind.image, Kind.width]
      have : ¬ (stripNuls (data.take m)).length > m := by omega
      rw [if_neg this, p1]

/-- **C08, first half.** Decoding a payload of exactly the table's size and encoding the result
    reproduces the payload byte for byte, except that reserved ranges come out as zero. -/
theorem encode_decode (t : Table) (hwf : t.wf) (pl : List Nat) (hb : Bytes pl) (hl : t.size ≤ pl.length)
    (vs : List Val) (rem : List Nat) (h : t.decode pl = .ok (vs, rem)) :
    t.encode vs = .ok (t.zeroReserved pl) := by
  induction t generalizing pl vs rem with
  | nil =>
    simp only [Table.decode, Except.ok.injEq, Prod.mk.injEq] at h
    obtain ⟨rfl, -⟩ := h
    rfl
  | cons x rest ih =>
    obtain ⟨nm, k⟩ := x
    simp only [Table.decode] at h
    split at h
    · cases h
    · rename_i v n hu
      split at h
      · cases h
      · rename_i vs' rem' hd
        simp only [Except.ok.injEq, Prod.mk.injEq] at h
        obtain ⟨rfl, -⟩ := h
        have hn := unpack_consumes k _ v n hu
        subst hn
        rw [Table.size_cons] at hl
        simp only at hl
        have hitem := pack_unpack_item k pl hb (by omega) (fun w hk => hwf (nm, k) (by simp) w hk) v _ hu
        have hrest := ih (fun y hy => hwf y (by simp [hy])) (pl.drop k.width)
          (fun b hbm => hb b (List.mem_of_mem_drop hbm)) (by simp; omega) vs' rem' hd
        simp only [Table.encode, hitem, hrest, Table.zeroReserved]

end Ubx

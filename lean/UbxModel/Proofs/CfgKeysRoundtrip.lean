import UbxModel.Proofs.CfgKeys
namespace Ubx
open Spec
variable [KeyTable]

theorem bytesForSize_valid (bits : Nat) (hb : validBits bits) : bytesForSize bits = .ok (valueBytes bits) := by
  rcases hb with rfl | rfl | rfl | rfl | rfl <;> simp [bytesForSize, bytesFromBits_eq, valueBytes, List.find?]

theorem take_append_len {α} (a b : List α) (n : Nat) (h : a.length = n) : (a ++ b).take n = a := by
  subst h; simp

theorem unpackU_append (w : Nat) (bs rest : List Nat) (h : bs.length = w) :
    unpackU w ((bs ++ rest).take w) = unpackU w bs := by
  rw [take_append_len bs rest w h]

/-- the value part: what `_pack_value` produced, `_unpack_value` reads back -/
theorem value_roundtrip (c : CfgItem) (hb : validBits c.bits) (val : List Nat) (h : c.packValue = .ok val)
    (h1 : c.bits = 1 → c.value = 0 ∨ c.value = 1) (rest : List Nat) :
    unpackValue c.bits c.signed (val ++ rest) = .ok (c.value, valueBytes c.bits) ∧ val.length = valueBytes c.bits := by
  have hbs := bytesForSize_valid c.bits hb
  rcases hb with hb | hb | hb | hb | hb
  · -- 1 bit
    have hv := h1 hb
    rw [hb] at hbs
    simp only [valueBytes, if_true] at hbs
    simp only [CfgItem.packValue, hb, if_true] at h
    obtain ⟨r1, r2, -⟩ := unpackU_packU 1 _ val h
    simp only [unpackValue, hbs, hb, valueBytes, if_true, take_append_len val rest 1 r2, r1]
    rcases hv with hv | hv <;> simp [hv, r2]
  all_goals
    rw [hb] at hbs
    simp only [valueBytes, Nat.reduceEqDiff, if_false, if_true] at hbs
    simp only [CfgItem.packValue, hb] at h
    simp only [unpackValue, hbs, hb, valueBytes]
    simp only [Nat.reduceEqDiff, if_false, if_true] at h ⊢
    cases hs : c.signed
    · simp only [hs, Bool.false_eq_true, if_false] at h ⊢
      obtain ⟨r1, r2, -⟩ := unpackU_packU _ _ val h
      simp [take_append_len val rest _ r2, r1, r2, Except.map]
    · simp only [hs, if_true] at h ⊢
      obtain ⟨r1, r2, -⟩ := unpackI_packI _ (by decide) _ val h
      simp [take_append_len val rest _ r2, r1, r2, Except.map]

/-- the value part has the width of its size, whatever the value -/
theorem value_roundtrip_len (c : CfgItem) (hb : validBits c.bits) (val : List Nat) (h : c.packValue = .ok val) :
    True ∧ val.length = valueBytes c.bits := by
  refine ⟨trivial, ?_⟩
  rcases hb with hb | hb | hb | hb | hb
  · simp only [CfgItem.packValue, hb, if_true] at h
    have := (unpackU_packU 1 _ val h).2.1
    simp [hb, valueBytes, this]
  all_goals
    simp only [CfgItem.packValue, hb] at h
    simp only [Nat.reduceEqDiff, if_false, if_true] at h
    cases hs : c.signed
    · simp only [hs, Bool.false_eq_true, if_false] at h
      have := (unpackU_packU _ _ val h).2.1
      simp [hb, valueBytes, this]
    · simp only [hs, if_true] at h
      have := (unpackI_packI _ (by decide) _ val h).2.1
      simp [hb, valueBytes, this]

theorem sizeCode_lt (bits : Nat) : sizeCode bits < 8 := by
  unfold sizeCode; split <;> (try split) <;> (try split) <;> (try split) <;> (try split) <;> omega

theorem bitsFromKey_of (k bits : Nat) (hb : validBits bits) (h : (k >>> 28) &&& 0x7 = sizeCode bits) :
    bitsFromKey k = .ok bits := by
  rcases hb with rfl | rfl | rfl | rfl | rfl <;> simp [bitsFromKey, h, sizeCode, bitsFromSize_eq]

theorem bind_ok {α β : Type} (x : α) (f : α → Except Exc β) : (Except.ok x >>= f) = f x := rfl
theorem bind_error {α β : Type} (e : Exc) (f : α → Except Exc β) : ((Except.error e : Except Exc α) >>= f) = Except.error e := rfl

/-- `pack()` of an item with valid ids and size: the little-endian key id followed by the value bytes -/
theorem pack_eq (c : CfgItem) (hg : ¬ (c.group < 0 ∨ c.group > 0xFF)) (hi : ¬ (c.item < 0 ∨ c.item > 0xFFF))
    (hb : validBits c.bits) (k : Nat) (hk : k = sizeCode c.bits * 2 ^ 28 + c.group.toNat * 2 ^ 16 + c.item.toNat) :
    c.pack = structToValue (c.packValue >>= fun value => pure (leBytes 4 k ++ value)) ∧
    groupFromKey k = c.group.toNat ∧ itemFromKey k = c.item.toNat ∧ (k >>> 28) &&& 0x7 = sizeCode c.bits ∧ k < 2 ^ 32 := by
  have hg' : c.group.toNat < 256 := by omega
  have hi' : c.item.toNat < 4096 := by omega
  have hsc := sizeCode_lt c.bits
  obtain ⟨f1, f2, f3, f4⟩ := key_fields c.group.toNat c.item.toNat (sizeCode c.bits) hg' hi' hsc
  rw [← hk] at f1 f2 f3 f4
  refine ⟨?_, f1, f2, f3, f4⟩
  have hpk : packU 4 (k : Int) = .ok (leBytes 4 k) := by
    have : (0 : Int) ≤ (k : Int) ∧ (k : Int) < ((2 ^ (8 * 4) : Nat) : Int) := by
      constructor
      · omega
      · have : k < 2 ^ (8 * 4) := by simpa using f4
        exact Int.ofNat_lt.mpr this
    simp only [packU, this, and_self, if_true, Int.toNat_natCast]
  unfold CfgItem.pack
  rw [if_neg hg, if_neg hi, buildHeader_valid _ _ _ hb, header_eq _ _ _ hg' hi' hsc, ← hk]
  rw [bind_ok, hpk, bind_ok]

/-- **C13, round trip.** An item with group 0..255, item 0..4095, a valid size, the signedness the
    key table gives its key id and a value that `pack` accepts (1-bit: 0/1, i.e. False/True)
    decodes to itself, consuming exactly 4 bytes plus the value width — whatever follows. -/
theorem roundtrip (c : CfgItem) (bs : List Nat) (h : c.pack = .ok bs) (hb : validBits c.bits)
    (h1 : c.bits = 1 → c.value = 0 ∨ c.value = 1)
    (k : Nat) (hk : k = sizeCode c.bits * 2 ^ 28 + c.group.toNat * 2 ^ 16 + c.item.toNat)
    (hs : c.signed = keySigned k) (rest : List Nat) :
    CfgItem.unpack (bs ++ rest) = .ok (c, 4 + valueBytes c.bits) ∧ bs.length = 4 + valueBytes c.bits := by
  have hg : ¬ (c.group < 0 ∨ c.group > 0xFF) := by
    intro hc; simp [CfgItem.pack, hc] at h
  have hi : ¬ (c.item < 0 ∨ c.item > 0xFFF) := by
    intro hc; simp [CfgItem.pack, hg, hc] at h
  obtain ⟨hp, f1, f2, f3, f4⟩ := pack_eq c hg hi hb k hk
  rw [hp] at h
  have hg' : (c.group.toNat : Int) = c.group := by omega
  have hi' : (c.item.toNat : Int) = c.item := by omega
  cases hv : c.packValue with
  | error e => rw [hv, bind_error] at h; simp [structToValue] at h
  | ok val =>
    rw [hv, bind_ok] at h
    simp only [structToValue, pure, Except.pure, Except.ok.injEq] at h
    subst h
    obtain ⟨v1, v2⟩ := value_roundtrip c hb val hv h1 rest
    have hlen4 : (leBytes 4 k).length = 4 := leBytes_length 4 k
    refine ⟨?_, by simp [hlen4, v2]⟩
    have htake : ((leBytes 4 k ++ val) ++ rest).take 4 = leBytes 4 k := by
      rw [List.append_assoc]; exact take_append_len _ _ 4 hlen4
    have hdrop : ((leBytes 4 k ++ val) ++ rest).drop 4 = val ++ rest := by
      rw [List.append_assoc, List.drop_append_of_le_length (by omega)]; simp [hlen4]
    have hun : unpackU 4 (leBytes 4 k) = .ok (k : Int) := by
      have hlt : k < 256 ^ 4 := by simpa using f4
      simp only [unpackU, hlen4, Nat.lt_irrefl, if_false, take_leBytes, leVal_leBytes, Nat.mod_eq_of_lt hlt]
    have hnl : ¬ ((leBytes 4 k ++ val) ++ rest).length < 4 := by simp [hlen4]
    unfold CfgItem.unpack
    rw [if_neg hnl, htake, hun, bind_ok]
    simp only [Int.toNat_natCast]
    rw [bitsFromKey_of k c.bits hb f3, bind_ok, hdrop, ← hs, v1]
    simp only [structToValue, bind_ok, pure, Except.pure, f1, f2, hg', hi']

end Ubx

import UbxModel.Proofs.ServerIndependence
import UbxModel.Proofs.ParserPrefix
namespace Ubx

def Markers (q : List Packet) : Prop := ∀ x ∈ q, x = Packet.crcError

theorem drain_markers (reg : Registry) (q : List Packet) (h : Markers q) : drain reg q = (none, []) := by
  induction q with
  | nil => rfl
  | cons x rest ih =>
    have hx := h x (by simp)
    subst hx
    simp only [drain]
    exact ih (fun y hy => h y (by simp [hy]))

theorem drain_markers_then (reg : Registry) (m : List Packet) (hm : Markers m) (cid : Cid) (pl : List Nat)
    (f : RFrame) (hb : reg.build cid pl = some f) (rest : List Packet) :
    drain reg (m ++ Packet.data cid pl :: rest) = (some f, rest) := by
  induction m with
  | nil => simp [drain, hb]
  | cons x xs ih =>
    have hx := hm x (by simp)
    subst hx
    simp only [List.cons_append, drain]
    exact ih (fun y hy => hm y (by simp [hy]))

theorem Markers.prefix {a b : List Packet} (h : Markers (a ++ b)) : Markers a :=
  fun x hx => h x (by simp [hx])

/-- "the rest `R` of the awaited stream arrives in time": it is delivered by consecutive receive calls,
    each of which starts before the deadline; the last one may deliver more -/
inductive Covers (env : Env) (deadline : Nat) : Nat → Nat → List Nat → Prop
  | last (now j : Nat) (R z : List Nat) : now < deadline → (env.rx j).2 = R ++ z → R ≠ [] →
      Covers env deadline now j R
  | more (now j : Nat) (c R' : List Nat) : now < deadline → (env.rx j).2 = c → R' ≠ [] →
      Covers env deadline (now + tick (env.rx j).1) (j + 1) R' → Covers env deadline now j (c ++ R')

/-- **the wait finds the answer.** `S` is the awaited stream; everything it queues before its last
    byte is error markers (`hM`), its last byte queues the answer (`hQ`); the undrained parser `U` has
    processed the proper prefix `P`; the rest arrives in time.  Then `_wait()` returns the answer. -/
theorem wait_finds (env : Env) (reg : Registry) (deadline : Nat) (p0 : Parser) (S : List Nat)
    (M : List Packet) (cid : Cid) (pl : List Nat) (f : RFrame)
    (hS : S ≠ []) (hM : (p0.process S.dropLast).queue = M) (hMm : Markers M)
    (hQ : (p0.process S).queue = M ++ [Packet.data cid pl]) (hb : reg.build cid pl = some f)
    (now j : Nat) (R : List Nat) (hc : Covers env deadline now j R) :
    ∀ (P : List Nat) (lg : Log), S = P ++ R → lg.now = now → lg.nRx = j →
      (wait env reg deadline { p0.process P with queue := [] } lg).1 = some f := by
  induction hc with
  | last now j R z hlt hrx hR =>
    intro P lg hSP hnow hj
    rw [wait_eq]
    rw [hnow, hj]
    simp only [hlt, if_true, hrx]
    obtain ⟨app, a1, a2⟩ := process_with_queue (p0.process P) [] (R ++ z)
    rw [a2]
    simp only [List.nil_append]
    -- what `P ++ R ++ z` appends after `P`
    have hfull : (p0.process (P ++ (R ++ z))).queue = (p0.process P).queue ++ app := by
      rw [Parser.process_append]; exact a1
    obtain ⟨app2, hz⟩ := queue_prefix p0 (P ++ R) z
    rw [← hSP, hQ] at hz
    have hPpre : ∃ appP, M = (p0.process P).queue ++ appP := by
      -- `P` is a prefix of `S.dropLast`
      have hRl : R = R.dropLast ++ [R.getLast hR] := (List.dropLast_concat_getLast hR).symm
      have hSd : S.dropLast = P ++ R.dropLast := by
        rw [hSP, hRl, ← List.append_assoc, List.dropLast_concat]
        simp
      obtain ⟨appP, hp⟩ := queue_prefix p0 P R.dropLast
      rw [← hSd, hM] at hp
      exact ⟨appP, hp⟩
    obtain ⟨appP, hMP⟩ := hPpre
    have happ : app = appP ++ Packet.data cid pl :: app2 := by
      have h1 : (p0.process (P ++ (R ++ z))).queue = (p0.process P).queue ++ (appP ++ Packet.data cid pl :: app2) := by
        rw [← List.append_assoc P R z, ← hSP, hz, hMP]; simp [List.append_assoc]
      rw [hfull] at h1
      exact List.append_cancel_left h1
    rw [happ]
    have hmP : Markers appP := fun x hx => hMm x (by rw [hMP]; simp [hx])
    rw [drain_markers_then reg appP hmP cid pl f hb app2]
  | more now j c R' hlt hrx hR' hcov ih =>
    intro P lg hSP hnow hj
    rw [wait_eq]
    rw [hnow, hj]
    simp only [hlt, if_true, hrx]
    obtain ⟨app, a1, a2⟩ := process_with_queue (p0.process P) [] c
    rw [a2]
    simp only [List.nil_append]
    -- `P ++ c` is still a prefix of `S.dropLast`: only markers so far
    have hRl : R' = R'.dropLast ++ [R'.getLast hR'] := (List.dropLast_concat_getLast hR').symm
    have hSd : S.dropLast = (P ++ c) ++ R'.dropLast := by
      rw [hSP, hRl, ← List.append_assoc, ← List.append_assoc, List.dropLast_concat]
      simp
    obtain ⟨appP, hp⟩ := queue_prefix p0 (P ++ c) R'.dropLast
    rw [← hSd, hM] at hp
    have hPc : (p0.process (P ++ c)).queue = (p0.process P).queue ++ app := by
      rw [Parser.process_append]; exact a1
    have hmapp : Markers app := by
      intro x hx
      apply hMm x
      rw [hp, hPc]; simp [hx]
    rw [drain_markers reg app hmapp]
    simp only
    have := ih (P ++ c) { lg with now := now + tick (env.rx j).1, nRx := j + 1, calls := lg.calls ++ [.rx] }
      (by rw [hSP]; simp) rfl rfl
    rw [Parser.process_append] at this
    rw [← hnow, ← hj] at this ⊢
    exact this

end Ubx

import UbxModel.Model.Tty
import UbxModel.Proofs.ParserComplete
import UbxModel.Proofs.Nmea
/-! `scan()`: the bytes it sees when it says no, and monotonicity of the two counters. -/
namespace Ubx

theorem step_framesRx_mono (p : Parser) (d : Nat) : p.framesRx ≤ (p.step d).framesRx := by
  unfold Parser.step
  cases p.st <;> simp only [] <;> (repeat' split) <;> simp [Parser.reset]

theorem process_framesRx_mono (p : Parser) (bs : List Nat) : p.framesRx ≤ (p.process bs).framesRx := by
  induction bs generalizing p with
  | nil => exact Nat.le_refl _
  | cons d ds ih => exact Nat.le_trans (step_framesRx_mono p d) (ih (p.step d))

end Ubx

namespace Nmea

theorem step_framesRx_mono (p : P) (c : Nat) : p.framesRx ≤ (p.step c).framesRx := by
  unfold P.step
  split
  · exact Nat.le_refl _
  · cases p.st <;> simp only [] <;> (repeat' split) <;> simp

theorem process_framesRx_mono (p : P) (s : List Nat) : p.framesRx ≤ (p.process s).framesRx := by
  induction s generalizing p with
  | nil => exact Nat.le_refl _
  | cons d ds ih => exact Nat.le_trans (step_framesRx_mono p d) (ih (p.step d))

end Nmea

namespace Ubx.Tty

/-- the bytes delivered by the reads that start before `tEnd`, from read `j` at time `now` on -/
def received (env : Env) (tEnd : Nat) (now j : Nat) : List Nat :=
  if now < tEnd then
    (match (env.rd j).2 with | none => [] | some d => [d]) ++ received env tEnd (now + tick (env.rd j).1) (j + 1)
  else []
termination_by tEnd - now
decreasing_by simp only [tick]; omega

theorem received_eq (env : Env) (tEnd : Nat) (now j : Nat) :
    received env tEnd now j =
      if now < tEnd then
        (match (env.rd j).2 with | none => [] | some d => [d]) ++ received env tEnd (now + tick (env.rd j).1) (j + 1)
      else [] := by
  rw [received]

/-- a scan that says no has seen every byte delivered before the deadline -/
theorem scan_false_seen (env : Env) (tEnd : Nat) (s : ScanState) (h : (scanLoop env tEnd s).1 = false) :
    (scanLoop env tEnd s).2.seen = s.seen ++ received env tEnd s.now s.j := by
  fun_induction scanLoop env tEnd s with
  | case1 s hlt r now' hnone ih =>
    rw [ih h, received_eq env tEnd s.now, if_pos hlt]
    simp only [r] at hnone
    simp [hnone, now', r]
  | case2 s hlt r now' d hsome u s1 hge => simp at h
  | case3 s hlt r now' d hsome u s1 hge n s2 hge2 => simp at h
  | case4 s hlt r now' d hsome u s1 hge n s2 hge2 ih =>
    rw [ih h, received_eq env tEnd s.now, if_pos hlt]
    simp only [r] at hsome
    simp [hsome, s2, s1, now', r]
  | case5 s hnl =>
    rw [received_eq, if_neg hnl]; simp

end Ubx.Tty

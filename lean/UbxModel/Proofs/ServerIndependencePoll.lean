import UbxModel.Proofs.ServerIndependence
namespace Ubx

theorem pollWaitAck_eq (env : Env) (reg : Registry) (req : Cid) (deadline : Nat) (p : Parser) (lg : Log) :
    pollWaitAck env reg req deadline p lg =
      match wait env reg deadline p lg with
      | (some f, p', lg') =>
          if checkAckNak req f = .ack then (true, p', lg') else pollWaitAck env reg req deadline p' lg'
      | (none, p', lg') => (false, p', lg') := by
  rw [pollWaitAck]
  split <;> rename_i h <;> simp [h]

theorem pollAttempt_eq (env : Env) (reg : Registry) (req : Cid) (delay deadline : Nat) (p : Parser) (lg : Log) :
    pollAttempt env reg req delay deadline p lg =
      match wait env reg deadline p lg with
      | (some f, p', lg') =>
          if f.cid = req then
            if req.cls = CLASS_CFG then
              match pollWaitAck env reg req (lg'.now + delay) p' lg' with
              | (true, p'', lg'') => (some f, p'', lg'')
              | (false, p'', lg'') => (none, p'', lg'')
            else (some f, p', lg')
          else pollAttempt env reg req delay deadline p' lg'
      | (none, p', lg') => (none, p', lg') := by
  rw [pollAttempt]
  split
  · rename_i h; simp only [h]
    split
    · split
      · split <;> rename_i h2 <;> simp [h2]
      · rfl
    · rfl
  · rename_i h; simp [h]

/-- the 'wait-ack' loop cannot tell alike parsers apart -/
theorem pollWaitAck_alike (env : Env) (reg : Registry) (req : Cid) (deadline : Nat) (p q : Parser) (lg : Log)
    (h : Alike p q) :
    (pollWaitAck env reg req deadline p lg).1 = (pollWaitAck env reg req deadline q lg).1 ∧
    (pollWaitAck env reg req deadline p lg).2.2 = (pollWaitAck env reg req deadline q lg).2.2 ∧
    Alike (pollWaitAck env reg req deadline p lg).2.1 (pollWaitAck env reg req deadline q lg).2.1 := by
  generalize hn : deadline - lg.now = n
  induction n using Nat.strongRecOn generalizing p q lg with
  | _ n ih =>
    rw [pollWaitAck_eq env reg req deadline p lg, pollWaitAck_eq env reg req deadline q lg]
    obtain ⟨a, b, c⟩ := wait_alike env reg deadline p q lg h
    have hadv := wait_some_advances env reg deadline p lg
    generalize wait env reg deadline p lg = rp at a b c hadv
    generalize wait env reg deadline q lg = rq at a b c
    obtain ⟨fp, pp, lp⟩ := rp
    obtain ⟨fq, pq, lq⟩ := rq
    simp only at a b c hadv
    subst a; subst b
    cases fp with
    | none => exact ⟨rfl, rfl, c⟩
    | some f =>
      simp only
      split
      · exact ⟨rfl, rfl, c⟩
      · obtain ⟨h1, h2⟩ := hadv f rfl
        exact ih (deadline - lp.now) (by omega) pp pq lp c rfl

/-- an attempt of `poll()` cannot tell alike parsers apart -/
theorem pollAttempt_alike (env : Env) (reg : Registry) (req : Cid) (delay deadline : Nat) (p q : Parser) (lg : Log)
    (h : Alike p q) :
    (pollAttempt env reg req delay deadline p lg).1 = (pollAttempt env reg req delay deadline q lg).1 ∧
    (pollAttempt env reg req delay deadline p lg).2.2 = (pollAttempt env reg req delay deadline q lg).2.2 ∧
    Alike (pollAttempt env reg req delay deadline p lg).2.1 (pollAttempt env reg req delay deadline q lg).2.1 := by
  generalize hn : deadline - lg.now = n
  induction n using Nat.strongRecOn generalizing p q lg with
  | _ n ih =>
    rw [pollAttempt_eq env reg req delay deadline p lg, pollAttempt_eq env reg req delay deadline q lg]
    obtain ⟨a, b, c⟩ := wait_alike env reg deadline p q lg h
    have hadv := wait_some_advances env reg deadline p lg
    generalize wait env reg deadline p lg = rp at a b c hadv
    generalize wait env reg deadline q lg = rq at a b c
    obtain ⟨fp, pp, lp⟩ := rp
    obtain ⟨fq, pq, lq⟩ := rq
    simp only at a b c hadv
    subst a; subst b
    cases fp with
    | none => exact ⟨rfl, rfl, c⟩
    | some f =>
      simp only
      split
      · split
        · obtain ⟨a2, b2, c2⟩ := pollWaitAck_alike env reg req (lp.now + delay) pp pq lp c
          generalize pollWaitAck env reg req (lp.now + delay) pp lp = r1 at a2 b2 c2
          generalize pollWaitAck env reg req (lp.now + delay) pq lp = r2 at a2 b2 c2
          obtain ⟨o1, x1, y1⟩ := r1
          obtain ⟨o2, x2, y2⟩ := r2
          simp only at a2 b2 c2
          subst a2; subst b2
          cases o1 <;> exact ⟨rfl, rfl, c2⟩
        · exact ⟨rfl, rfl, c⟩
      · obtain ⟨h1, h2⟩ := hadv f rfl
        exact ih (deadline - lp.now) (by omega) pp pq lp c rfl

end Ubx

namespace Ubx

theorem pollAttempt_independent (env : Env) (reg : Registry) (req : Cid) (delay deadline : Nat) (p q : Parser) (lg : Log)
    (hf : p.filter = q.filter) :
    (pollAttempt env reg req delay deadline p.emptyQueue.restart lg).1 =
      (pollAttempt env reg req delay deadline q.emptyQueue.restart lg).1 ∧
    (pollAttempt env reg req delay deadline p.emptyQueue.restart lg).2.2 =
      (pollAttempt env reg req delay deadline q.emptyQueue.restart lg).2.2 ∧
    (pollAttempt env reg req delay deadline p.emptyQueue.restart lg).2.1.filter =
      (pollAttempt env reg req delay deadline q.emptyQueue.restart lg).2.1.filter := by
  rcases alike_after_restart p q hf with h | h
  · obtain ⟨a, b, c⟩ := pollAttempt_alike env reg req delay deadline _ _ lg h
    exact ⟨a, b, c.filter⟩
  · obtain ⟨a, b, c⟩ := pollAttempt_alike env reg req delay deadline _ _ lg h
    exact ⟨a.symm, b.symm, c.filter.symm⟩

/-- **C10 for `poll()`** -/
theorem pollLoop_independent (env : Env) (reg : Registry) (delay : Nat) (req : Req) (n : Nat)
    (p q : Parser) (lg : Log) (hf : p.filter = q.filter) :
    (pollLoop env reg delay req n p lg).1 = (pollLoop env reg delay req n q lg).1 ∧
    (pollLoop env reg delay req n p lg).2.2 = (pollLoop env reg delay req n q lg).2.2 := by
  induction n generalizing p q lg with
  | zero => exact ⟨rfl, rfl⟩
  | succ n ih =>
    simp only [pollLoop]
    cases hok : (flushSend env lg req.wire).1
    · simp only [Bool.false_eq_true, if_false]
      exact ih p q _ hf
    · simp only [if_true]
      obtain ⟨a, b, c⟩ := pollAttempt_independent env reg req.cid delay ((flushSend env lg req.wire).2.now + delay) p q
        (flushSend env lg req.wire).2 hf
      generalize pollAttempt env reg req.cid delay ((flushSend env lg req.wire).2.now + delay) p.emptyQueue.restart
        (flushSend env lg req.wire).2 = rp at a b c
      generalize pollAttempt env reg req.cid delay ((flushSend env lg req.wire).2.now + delay) q.emptyQueue.restart
        (flushSend env lg req.wire).2 = rq at a b c
      obtain ⟨fp, pp, lp⟩ := rp
      obtain ⟨fq, pq, lq⟩ := rq
      simp only at a b c
      subst a; subst b
      cases fp with
      | none => exact ih pp pq _ c
      | some f => exact ⟨rfl, rfl⟩

/-- **C10 for `set_mga()`** -/
theorem mgaLoop_independent (env : Env) (reg : Registry) (delay : Nat) (req : Req) (n : Nat)
    (p q : Parser) (lg : Log) (hf : p.filter = q.filter) :
    (mgaLoop env reg delay req n p lg).1 = (mgaLoop env reg delay req n q lg).1 ∧
    (mgaLoop env reg delay req n p lg).2.2 = (mgaLoop env reg delay req n q lg).2.2 := by
  induction n generalizing p q lg with
  | zero => exact ⟨rfl, rfl⟩
  | succ n ih =>
    simp only [mgaLoop]
    cases hok : (flushSend env lg req.wire).1
    · simp only [Bool.false_eq_true, if_false]
      exact ih p q _ hf
    · simp only [if_true]
      obtain ⟨a, b, c⟩ := attempt_independent env reg ((flushSend env lg req.wire).2.now + delay) p q
        (flushSend env lg req.wire).2 hf
      generalize wait env reg ((flushSend env lg req.wire).2.now + delay) p.emptyQueue.restart
        (flushSend env lg req.wire).2 = rp at a b c
      generalize wait env reg ((flushSend env lg req.wire).2.now + delay) q.emptyQueue.restart
        (flushSend env lg req.wire).2 = rq at a b c
      obtain ⟨fp, pp, lp⟩ := rp
      obtain ⟨fq, pq, lq⟩ := rq
      simp only at a b c
      subst a; subst b
      cases fp with
      | none => exact ih pp pq _ c
      | some f =>
        simp only
        split
        · exact ⟨rfl, rfl⟩
        · exact ih pp pq _ c

end Ubx

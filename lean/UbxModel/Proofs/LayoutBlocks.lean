import UbxModel.Proofs.Layout
import UbxModel.Model.Messages
namespace Ubx
open Spec

theorem Table.size_append (a b : Table) : Table.size (a ++ b) = a.size + b.size := by
  simp [Table.size]

theorem Table.layout_append (a b : Table) (o : Nat) :
    Table.layout (a ++ b) o = a.layout o ++ b.layout (o + a.size) := by
  induction a generalizing o with
  | nil => simp [Table.layout, Table.size]
  | cons x r ih =>
    obtain ⟨n, k⟩ := x
    cases k <;> simp [Table.layout, ih, Table.size_cons, Kind.width, Nat.add_assoc]

theorem blocks_succ (blk : Nat → Table) (n : Nat) : blocks blk (n + 1) = blocks blk n ++ blk n := by
  simp [blocks, List.range_succ]

theorem blocks_size (blk : Nat → Table) (S : Nat) (hS : ∀ i, (blk i).size = S) (n : Nat) :
    (blocks blk n).size = S * n := by
  induction n with
  | zero => simp [blocks, Table.size]
  | succ n ih => rw [blocks_succ, Table.size_append, ih, hS, Nat.mul_succ]

/-- **all block counts at once**: the layout of `n` blocks is the `n` block layouts at stride `S` -/
theorem blocks_layout (blk : Nat → Table) (S : Nat) (hS : ∀ i, (blk i).size = S) (o n : Nat) :
    (blocks blk n).layout o = (List.range n).flatMap (fun i => (blk i).layout (o + S * i)) := by
  induction n with
  | zero => simp [blocks, Table.layout]
  | succ n ih =>
    rw [blocks_succ, Table.layout_append, ih, blocks_size blk S hS, List.range_succ, List.flatMap_append]
    simp

/-- header followed by `n` blocks -/
theorem dynamic_layout (hdr : Table) (blk : Nat → Table) (hdrSpec : Layout) (blkSpec : Nat → Layout) (H S : Nat)
    (h1 : hdr.layout 0 = hdrSpec) (h2 : hdr.size = H) (hS : ∀ i, (blk i).size = S)
    (h3 : ∀ i, (blk i).layout (H + S * i) = blkSpec i) (n : Nat) :
    (hdr ++ blocks blk n).layout 0 = hdrSpec ++ (List.range n).flatMap blkSpec ∧
    (hdr ++ blocks blk n).size = H + S * n := by
  constructor
  · rw [Table.layout_append, h1, h2, blocks_layout blk S hS]
    simp [h3]
  · rw [Table.size_append, h2, blocks_size blk S hS]

end Ubx

import UbxModel.Proofs.ParserComplete
namespace Ubx

/-- A segment of consumed input, as the parser accounts for it -/
inductive Seg
  | skip (b : Nat)                                   -- a byte dropped while hunting for sync
  | frame (cls id : Nat) (pl : List Nat) (a b : Nat) -- frame-shaped, length ≤ MAXLEN
  | long (cls id l1 l2 : Nat)                        -- 6-byte header announcing > MAXLEN bytes

def Seg.bytes : Seg → List Nat
  | .skip b => [b]
  | .frame cls id pl a b => frameBytes cls id pl a b
  | .long cls id l1 l2 => [0xB5, 0x62, cls, id, l1, l2]

def Seg.wf : Seg → Prop
  | .skip _ => True
  | .frame _ _ pl _ _ => pl.length ≤ MAXLEN
  | .long _ _ l1 l2 => l1 + l2 * 256 > MAXLEN

def Seg.packets (f : Option (List Cid)) : Seg → List Packet
  | .frame cls id pl a b =>
      if (frameCk cls id pl).a = a ∧ (frameCk cls id pl).b = b then
        (if filterPasses f ⟨cls, id⟩ then [.data ⟨cls, id⟩ pl] else [])
      else [.crcError]
  | _ => []

def Seg.good : Seg → Nat
  | .frame cls id pl a b => if (frameCk cls id pl).a = a ∧ (frameCk cls id pl).b = b then 1 else 0
  | _ => 0

def segBytes (segs : List Seg) : List Nat := segs.flatMap Seg.bytes
def segPackets (f : Option (List Cid)) (segs : List Seg) : List Packet := segs.flatMap (Seg.packets f)
def segGood (segs : List Seg) : Nat := (segs.map Seg.good).sum

/-- the bytes of the frame in progress, reconstructed from the parser state -/
def Parser.pending (p : Parser) : List Nat :=
  match p.st with
  | .init => []
  | .sync => [0xB5]
  | .cls => [0xB5, 0x62]
  | .id => [0xB5, 0x62, p.msgClass]
  | .len1 => [0xB5, 0x62, p.msgClass, p.msgId]
  | .len2 => [0xB5, 0x62, p.msgClass, p.msgId, p.msgLen]
  | .data => [0xB5, 0x62, p.msgClass, p.msgId, p.msgLen % 256, p.msgLen / 256] ++ p.msgData
  | .crc1 => [0xB5, 0x62, p.msgClass, p.msgId, p.msgLen % 256, p.msgLen / 256] ++ p.msgData
  | .crc2 => [0xB5, 0x62, p.msgClass, p.msgId, p.msgLen % 256, p.msgLen / 256] ++ p.msgData ++ [p.cka]

/-- per-state consistency of the frame-progress fields -/
def Parser.coherent (p : Parser) : Prop :=
  match p.st with
  | .init => True
  | .sync => True
  | .cls => p.ck = Ck.zero ∧ p.msgData = []
  | .id => p.ck = Ck.zero.addAll [p.msgClass] ∧ p.msgData = []
  | .len1 => p.ck = Ck.zero.addAll [p.msgClass, p.msgId] ∧ p.msgData = []
  | .len2 => p.ck = Ck.zero.addAll [p.msgClass, p.msgId, p.msgLen] ∧ p.msgData = [] ∧ p.msgLen < 256
  | .data => p.ck = Ck.zero.addAll ([p.msgClass, p.msgId, p.msgLen % 256, p.msgLen / 256] ++ p.msgData) ∧
             p.ofs = p.msgData.length ∧ p.ofs < p.msgLen ∧ p.msgLen ≤ MAXLEN
  | .crc1 => p.ck = Ck.zero.addAll ([p.msgClass, p.msgId, p.msgLen % 256, p.msgLen / 256] ++ p.msgData) ∧
             p.msgData.length = p.msgLen ∧ p.msgLen ≤ MAXLEN
  | .crc2 => p.ck = Ck.zero.addAll ([p.msgClass, p.msgId, p.msgLen % 256, p.msgLen / 256] ++ p.msgData) ∧
             p.msgData.length = p.msgLen ∧ p.msgLen ≤ MAXLEN

/-- the accounting invariant: everything consumed so far is a list of well-formed segments
    followed by the frame in progress; queue and counter are exactly what the segments yield -/
structure Inv (f : Option (List Cid)) (q0 : List Packet) (n0 : Nat) (consumed : List Nat) (p : Parser) : Prop where
  filt : p.filter = f
  coh : p.coherent
  ex : ∃ segs : List Seg, (∀ s ∈ segs, s.wf) ∧ consumed = segBytes segs ++ p.pending ∧
        p.queue = q0 ++ segPackets f segs ∧ p.framesRx = n0 + segGood segs

theorem segBytes_append (a b : List Seg) : segBytes (a ++ b) = segBytes a ++ segBytes b := by
  simp [segBytes]
theorem segPackets_append (f) (a b : List Seg) : segPackets f (a ++ b) = segPackets f a ++ segPackets f b := by
  simp [segPackets]
theorem segGood_append (a b : List Seg) : segGood (a ++ b) = segGood a + segGood b := by
  simp [segGood]

theorem Inv.step {f q0 n0 consumed p} (h : Inv f q0 n0 consumed p) (d : Nat) (hd : d < 256) :
    Inv f q0 n0 (consumed ++ [d]) (p.step d) := by
  obtain ⟨hf, hc, segs, hwf, hcons, hq, hn⟩ := h
  cases hst : p.st with
  | init =>
    have hpend : p.pending = [] := by simp [Parser.pending, hst]
    by_cases hx : d = 0xB5
    · rw [step_init_sync p d hst hx]
      refine ⟨hf, by simp [Parser.coherent], segs, hwf, ?_, hq, hn⟩
      rw [hcons, hpend]; simp [Parser.pending, hx]
    · rw [step_init_other p d hst hx]
      refine ⟨hf, by simp [Parser.coherent, hst], segs ++ [.skip d], ?_, ?_, ?_, ?_⟩
      · intro s hs; simp at hs; rcases hs with hs | hs
        · exact hwf s hs
        · subst hs; trivial
      · rw [hcons, hpend]; simp [Parser.pending, hst, segBytes_append, segBytes, Seg.bytes]
      · simp [hq, segPackets_append, segPackets, Seg.packets]
      · simp [hn, segGood_append, segGood, Seg.good]
  | sync =>
    have hpend : p.pending = [0xB5] := by simp [Parser.pending, hst]
    by_cases h62 : d = 0x62
    · rw [step_sync_62 p d hst h62]
      refine ⟨by simp [Parser.reset, hf], by simp [Parser.coherent, Parser.reset, Ck.reset], segs, hwf, ?_,
        by simp [Parser.reset, hq], by simp [Parser.reset, hn]⟩
      rw [hcons, hpend]; simp [Parser.pending, Parser.reset, h62]
    · by_cases hb5 : d = 0xB5
      · rw [step_sync_b5 p d hst hb5]
        refine ⟨hf, by simp [Parser.coherent, hst], segs ++ [.skip 0xB5], ?_, ?_, ?_, ?_⟩
        · intro s hs; simp at hs; rcases hs with hs | hs
          · exact hwf s hs
          · subst hs; trivial
        · rw [hcons, hpend]; simp [segBytes_append, segBytes, Seg.bytes, hb5]
        · simp [hq, segPackets_append, segPackets, Seg.packets]
        · simp [hn, segGood_append, segGood, Seg.good]
      · rw [step_sync_other p d hst h62 hb5]
        refine ⟨hf, by simp [Parser.coherent], segs ++ [.skip 0xB5, .skip d], ?_, ?_, ?_, ?_⟩
        · intro s hs; simp at hs; rcases hs with hs | hs | hs
          · exact hwf s hs
          · subst hs; trivial
          · subst hs; trivial
        · rw [hcons, hpend]; simp [Parser.pending, segBytes_append, segBytes, Seg.bytes]
        · simp [hq, segPackets_append, segPackets, Seg.packets]
        · simp [hn, segGood_append, segGood, Seg.good]
  | cls =>
    simp only [Parser.coherent, hst] at hc
    obtain ⟨hck, hmd⟩ := hc
    have hpend : p.pending = [0xB5, 0x62] := by simp [Parser.pending, hst]
    rw [step_cls p d hst]
    refine ⟨hf, by simp [Parser.coherent, hck, hmd, Ck.addAll], segs, hwf, ?_, hq, hn⟩
    rw [hcons, hpend]; simp [Parser.pending]
  | id =>
    simp only [Parser.coherent, hst] at hc
    obtain ⟨hck, hmd⟩ := hc
    have hpend : p.pending = [0xB5, 0x62, p.msgClass] := by simp [Parser.pending, hst]
    rw [step_id p d hst]
    refine ⟨hf, by simp [Parser.coherent, hck, hmd, Ck.addAll], segs, hwf, ?_, hq, hn⟩
    rw [hcons, hpend]; simp [Parser.pending]
  | len1 =>
    simp only [Parser.coherent, hst] at hc
    obtain ⟨hck, hmd⟩ := hc
    have hpend : p.pending = [0xB5, 0x62, p.msgClass, p.msgId] := by simp [Parser.pending, hst]
    rw [step_len1 p d hst]
    refine ⟨hf, by simp [Parser.coherent, hck, hmd, Ck.addAll, hd], segs, hwf, ?_, hq, hn⟩
    rw [hcons, hpend]; simp [Parser.pending]
  | len2 =>
    simp only [Parser.coherent, hst] at hc
    obtain ⟨hck, hmd, hl1⟩ := hc
    have hpend : p.pending = [0xB5, 0x62, p.msgClass, p.msgId, p.msgLen] := by simp [Parser.pending, hst]
    have hmod : (p.msgLen + d * 256) % 256 = p.msgLen := by omega
    have hdiv : (p.msgLen + d * 256) / 256 = d := by omega
    by_cases h0 : p.msgLen + d * 256 = 0
    · have hl0 : p.msgLen = 0 := by omega
      have hd0 : d = 0 := by omega
      rw [step_len2_zero p d hst h0]
      refine ⟨hf, ?_, segs, hwf, ?_, hq, hn⟩
      · simp [Parser.coherent, hck, hmd, hl0, hd0, Ck.addAll]
      · rw [hcons, hpend]; simp [Parser.pending, hmd, hl0, hd0]
    · by_cases hbig : p.msgLen + d * 256 > MAXLEN
      · rw [step_len2_long p d hst hbig]
        refine ⟨hf, by simp [Parser.coherent],
          segs ++ [.long p.msgClass p.msgId p.msgLen d], ?_, ?_, ?_, ?_⟩
        · intro s hs; simp at hs; rcases hs with hs | hs
          · exact hwf s hs
          · subst hs; exact hbig
        · rw [hcons, hpend]; simp [Parser.pending, segBytes_append, segBytes, Seg.bytes]
        · simp [hq, segPackets_append, segPackets, Seg.packets]
        · simp [hn, segGood_append, segGood, Seg.good]
      · rw [step_len2_data p d hst h0 hbig]
        refine ⟨hf, ?_, segs, hwf, ?_, hq, hn⟩
        · simp only [Parser.coherent, hmod, hdiv, hmd]
          refine ⟨by simp [hck, Ck.addAll], rfl, by omega, by omega⟩
        · rw [hcons, hpend]; simp [Parser.pending, hmd, hmod, hdiv]
  | data =>
    simp only [Parser.coherent, hst] at hc
    obtain ⟨hck, hofs, hlt, hmax⟩ := hc
    have hpend : p.pending = [0xB5, 0x62, p.msgClass, p.msgId, p.msgLen % 256, p.msgLen / 256] ++ p.msgData := by
      simp [Parser.pending, hst]
    by_cases hlast : p.ofs + 1 = p.msgLen
    · rw [step_data_last p d hst hlast]
      refine ⟨hf, ?_, segs, hwf, ?_, hq, hn⟩
      · simp only [Parser.coherent]
        refine ⟨by simp [hck, Ck.addAll, List.foldl_append], by simp; omega, hmax⟩
      · rw [hcons, hpend]; simp [Parser.pending]
    · rw [step_data_more p d hst hlast]
      refine ⟨hf, ?_, segs, hwf, ?_, hq, hn⟩
      · simp only [Parser.coherent, hst]
        refine ⟨by simp [hck, Ck.addAll, List.foldl_append], by simp; omega, by omega, hmax⟩
      · rw [hcons, hpend]; simp [Parser.pending, hst]
  | crc1 =>
    simp only [Parser.coherent, hst] at hc
    obtain ⟨hck, hlen, hmax⟩ := hc
    have hpend : p.pending = [0xB5, 0x62, p.msgClass, p.msgId, p.msgLen % 256, p.msgLen / 256] ++ p.msgData := by
      simp [Parser.pending, hst]
    rw [step_crc1 p d hst]
    refine ⟨hf, by simp [Parser.coherent, hck, hlen, hmax], segs, hwf, ?_, hq, hn⟩
    rw [hcons, hpend]; simp [Parser.pending]
  | crc2 =>
    simp only [Parser.coherent, hst] at hc
    obtain ⟨hck, hlen, hmax⟩ := hc
    have hpend : p.pending = [0xB5, 0x62, p.msgClass, p.msgId, p.msgLen % 256, p.msgLen / 256] ++ p.msgData ++ [p.cka] := by
      simp [Parser.pending, hst]
    have hfck : frameCk p.msgClass p.msgId p.msgData = p.ck := by
      simp [frameCk, fletcher, hck, hlen, Ck.addAll]
    have hbytes : frameBytes p.msgClass p.msgId p.msgData p.cka d = p.pending ++ [d] := by
      simp [frameBytes, hpend, hlen]
    have hwf' : ∀ s ∈ segs ++ [Seg.frame p.msgClass p.msgId p.msgData p.cka d], s.wf := by
      intro s hs; simp at hs; rcases hs with hs | hs
      · exact hwf s hs
      · subst hs; simp [Seg.wf, hlen, hmax]
    by_cases hok : p.ck.a = p.cka ∧ p.ck.b = d
    · rw [step_crc2_ok p d hst hok]
      refine ⟨hf, by simp [Parser.coherent],
        segs ++ [.frame p.msgClass p.msgId p.msgData p.cka d], hwf', ?_, ?_, ?_⟩
      · simp [Parser.pending, hcons, segBytes_append, segBytes, Seg.bytes, hbytes]
      · have hp : Seg.packets f (.frame p.msgClass p.msgId p.msgData p.cka d) =
            if filterPasses f ⟨p.msgClass, p.msgId⟩ then [.data ⟨p.msgClass, p.msgId⟩ p.msgData] else [] := by
          simp [Seg.packets, hfck, hok]
        simp only [segPackets_append, segPackets, List.flatMap_cons,
          List.flatMap_nil, Parser.passes, hf, hq, List.append_nil]
        rw [List.flatMap_append]; simp only [List.flatMap_cons, List.flatMap_nil, List.append_nil, hp]
        split <;> simp [List.append_assoc]
      · simp [hn, segGood_append, segGood, Seg.good, hfck, hok]; omega
    · rw [step_crc2_bad p d hst hok]
      refine ⟨hf, by simp [Parser.coherent],
        segs ++ [.frame p.msgClass p.msgId p.msgData p.cka d], hwf', ?_, ?_, ?_⟩
      · simp [Parser.pending, hcons, segBytes_append, segBytes, Seg.bytes, hbytes]
      · simp [segPackets_append, segPackets, Seg.packets, hfck, hq, List.append_assoc, hok]
      · simp [hn, segGood_append, segGood, Seg.good, hfck, hok]


theorem Inv.init (f : Option (List Cid)) (p : Parser) (hst : p.st = .init) (hf : p.filter = f) :
    Inv f p.queue p.framesRx [] p :=
  ⟨hf, by simp [Parser.coherent, hst], [], by simp, by simp [segBytes, Parser.pending, hst],
   by simp [segPackets], by simp [segGood]⟩

theorem Inv.process {f q0 n0 consumed p} (h : Inv f q0 n0 consumed p) (s : List Nat)
    (hs : ∀ d ∈ s, d < 256) : Inv f q0 n0 (consumed ++ s) (p.process s) := by
  induction s generalizing consumed p with
  | nil => simpa [Parser.process] using h
  | cons d ds ih =>
    have h1 := h.step d (hs d (by simp))
    have h2 := ih h1 (fun x hx => hs x (by simp [hx]))
    simpa [Parser.process] using h2

/-- C03: everything a fresh parser delivers is accounted for by consecutive, well-formed
    segments of the input; the unconsumed remainder is the frame in progress. -/
theorem sound (f : Option (List Cid)) (s : List Nat) (hs : ∀ d ∈ s, d < 256) :
    let p := (Parser.fresh f).process s
    ∃ segs : List Seg, (∀ g ∈ segs, g.wf) ∧ s = segBytes segs ++ p.pending ∧
      p.queue = segPackets f segs ∧ p.framesRx = segGood segs := by
  have h := (Inv.init f (Parser.fresh f) rfl rfl).process s hs
  obtain ⟨_, _, segs, hwf, hcons, hq, hn⟩ := h
  exact ⟨segs, hwf, by simpa using hcons, by simpa [Parser.fresh] using hq, by simpa [Parser.fresh] using hn⟩

end Ubx

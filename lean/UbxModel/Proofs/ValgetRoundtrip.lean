import UbxModel.Proofs.CfgKeysDichotomy
import UbxModel.Proofs.CfgKeysRoundtrip
import UbxModel.Model.ValSetGet
/-! Re-encoding a decoded VALGET response: the key/value area comes back pair by pair as the key id with its reserved
    bits cleared followed by the *original* value bytes; 1–3 trailing bytes are dropped. -/
namespace Ubx
open Spec
variable [KeyTable]

/-- what the key/value area of a VALGET response looks like after decode + encode: for every pair (as long as at
    least four bytes remain) the canonical key id, then the value bytes as they were -/
def valgetCanon : Nat → List Nat → List Nat
  | 0, _ => []
  | fuel + 1, data =>
    if data.length < 4 then []
    else
      match CfgItem.unpack data with
      | .error _ => []
      | .ok (c, n) =>
          leBytes 4 (sizeCode c.bits * 2 ^ 28 + c.group.toNat * 2 ^ 16 + c.item.toNat)
            ++ (data.drop 4).take (valueBytes c.bits) ++ valgetCanon fuel (data.drop n)

theorem packItems_cons_ok (c : CfgItem) (rest : List CfgItem) (b more : List Nat)
    (hc : c.pack = .ok b) (hr : packItems rest = .ok more) : packItems (c :: rest) = .ok (b ++ more) := by
  simp only [packItems, hc, hr, bind_ok]; rfl

/-- **decode then encode of the key/value area** -/
theorem valget_reencode (fuel : Nat) (data : List Nat) (hb : Bytes data) (items : List CfgItem)
    (h : valgetItems fuel data = .ok items) : packItems items = .ok (valgetCanon fuel data) := by
  induction fuel generalizing data items with
  | zero => simp [valgetItems] at h; subst h; rfl
  | succ fuel ih =>
    by_cases h4 : data.length < 4
    · simp [valgetItems, h4] at h; subst h; simp [valgetCanon, h4, packItems]
    · rcases unpack_dichotomy data hb with he | ⟨c, n, hu, -, -, -, -, hp⟩
      · simp only [valgetItems, if_neg h4, he, bind_error] at h; cases h
      · simp only [valgetItems, if_neg h4, hu, bind_ok] at h
        cases hrest : valgetItems fuel (data.drop n) with
        | error e => simp [hrest, bind, Except.bind] at h
        | ok rest =>
          simp only [hrest, bind_ok, pure, Except.pure] at h
          cases h
          have hbr : Bytes (data.drop n) := fun b hbm => hb b (List.mem_of_mem_drop hbm)
          have := ih (data.drop n) hbr rest hrest
          rw [packItems_cons_ok c rest _ _ hp this]
          simp only [valgetCanon, if_neg h4, hu, List.append_assoc]

end Ubx

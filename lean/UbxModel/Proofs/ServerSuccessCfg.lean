import UbxModel.Proofs.ServerSuccess
import UbxModel.Proofs.ServerIndependencePoll
/-! The two-phase wait of a configuration-class `poll()`: the response in time, then the ACK-ACK in
    time counted from the moment the response was taken. -/
namespace Ubx

/-- `Covers`, with a condition `K now' j' z` on the situation right after the receive call that
    delivers the last byte: the clock, the index of the next receive call, and the surplus `z` that
    the same call delivered behind the awaited stream -/
inductive CoversK (env : Env) (deadline : Nat) (K : Nat → Nat → List Nat → Prop) : Nat → Nat → List Nat → Prop
  | last (now j : Nat) (R z : List Nat) : now < deadline → (env.rx j).2 = R ++ z → R ≠ [] →
      K (now + tick (env.rx j).1) (j + 1) z → CoversK env deadline K now j R
  | more (now j : Nat) (c R' : List Nat) : now < deadline → (env.rx j).2 = c → R' ≠ [] →
      CoversK env deadline K (now + tick (env.rx j).1) (j + 1) R' → CoversK env deadline K now j (c ++ R')

theorem CoversK.covers {env : Env} {deadline : Nat} {K : Nat → Nat → List Nat → Prop} {now j : Nat} {R : List Nat}
    (h : CoversK env deadline K now j R) : Covers env deadline now j R := by
  induction h with
  | last now j R z hlt hrx hR _ => exact Covers.last now j R z hlt hrx hR
  | more now j c R' hlt hrx hR' _ ih => exact Covers.more now j c R' hlt hrx hR' ih

theorem Covers.coversK {env : Env} {deadline : Nat} {now j : Nat} {R : List Nat}
    (h : Covers env deadline now j R) : CoversK env deadline (fun _ _ _ => True) now j R := by
  induction h with
  | last now j R z hlt hrx hR => exact CoversK.last now j R z hlt hrx hR trivial
  | more now j c R' hlt hrx hR' _ ih => exact CoversK.more now j c R' hlt hrx hR' ih

/-- an answer that is already queued behind error markers is returned by the next iteration -/
theorem wait_queued (env : Env) (reg : Registry) (deadline : Nat) (p : Parser) (lg : Log)
    (m : List Packet) (hm : Markers m) (cid : Cid) (pl : List Nat) (f : RFrame) (hb : reg.build cid pl = some f)
    (rest : List Packet) (hq : p.queue = m ++ Packet.data cid pl :: rest) (hlt : lg.now < deadline) :
    (wait env reg deadline p lg).1 = some f := by
  rw [wait_eq]
  simp only [hlt, if_true]
  obtain ⟨app, ha⟩ := process_appends p (env.rx lg.nRx).2
  rw [ha, hq]
  have : m ++ Packet.data cid pl :: rest ++ app = m ++ Packet.data cid pl :: (rest ++ app) := by simp
  rw [this, drain_markers_then reg m hm cid pl f hb]

/-- **the wait finds the answer — with the state it leaves behind.**  As `wait_finds`, for a parser
    whose queue holds only error markers; the result names the surplus `z` read behind the answer:
    the parser has processed `S ++ z`, its queue is what `z` added, and `K` holds of the clock, the
    receive index and `z`. -/
theorem wait_finds_full (env : Env) (reg : Registry) (deadline : Nat) (K : Nat → Nat → List Nat → Prop)
    (p0 : Parser) (S : List Nat)
    (M : List Packet) (cid : Cid) (pl : List Nat) (f : RFrame)
    (hS : S ≠ []) (hM : (p0.process S.dropLast).queue = M) (hMm : Markers M)
    (hQ : (p0.process S).queue = M ++ [Packet.data cid pl]) (hb : reg.build cid pl = some f)
    (now j : Nat) (R : List Nat) (hc : CoversK env deadline K now j R) :
    ∀ (P : List Nat) (Qp : List Packet) (lg : Log), S = P ++ R → lg.now = now → lg.nRx = j → Markers Qp →
      ∃ z rest lg', wait env reg deadline { p0.process P with queue := Qp } lg =
          (some f, { p0.process (S ++ z) with queue := rest }, lg') ∧
        (p0.process (S ++ z)).queue = M ++ Packet.data cid pl :: rest ∧ K lg'.now lg'.nRx z := by
  induction hc with
  | last now j R z hlt hrx hR hK =>
    intro P Qp lg hSP hnow hj hQp
    refine ⟨z, ?_⟩
    rw [wait_eq]
    rw [hnow, hj]
    simp only [hlt, if_true, hrx]
    obtain ⟨app, a1, a2⟩ := process_with_queue (p0.process P) Qp (R ++ z)
    rw [a2]
    have hfull : (p0.process (P ++ (R ++ z))).queue = (p0.process P).queue ++ app := by
      rw [Parser.process_append]; exact a1
    obtain ⟨app2, hz⟩ := queue_prefix p0 (P ++ R) z
    rw [← hSP, hQ] at hz
    have hPpre : ∃ appP, M = (p0.process P).queue ++ appP := by
      have hRl : R = R.dropLast ++ [R.getLast hR] := (List.dropLast_concat_getLast hR).symm
      have hSd : S.dropLast = P ++ R.dropLast := by
        rw [hSP, hRl, ← List.append_assoc, List.dropLast_concat]
        simp
      obtain ⟨appP, hp⟩ := queue_prefix p0 P R.dropLast
      rw [← hSd, hM] at hp
      exact ⟨appP, hp⟩
    obtain ⟨appP, hMP⟩ := hPpre
    have happ : app = appP ++ Packet.data cid pl :: app2 := by
      have h1 : (p0.process (P ++ (R ++ z))).queue = (p0.process P).queue ++ (appP ++ Packet.data cid pl :: app2) := by
        rw [← List.append_assoc P R z, ← hSP, hz, hMP]; simp [List.append_assoc]
      rw [hfull] at h1
      exact List.append_cancel_left h1
    rw [happ]
    have hmP : Markers appP := fun x hx => hMm x (by rw [hMP]; simp [hx])
    have hmQ : Markers (Qp ++ appP) := by
      intro x hx
      rcases List.mem_append.mp hx with h | h
      · exact hQp x h
      · exact hmP x h
    have hd : drain reg (Qp ++ (appP ++ Packet.data cid pl :: app2)) = (some f, app2) := by
      rw [← List.append_assoc]; exact drain_markers_then reg (Qp ++ appP) hmQ cid pl f hb app2
    simp only [hd]
    refine ⟨app2, { lg with now := now + tick (env.rx j).1, nRx := j + 1, calls := lg.calls ++ [.rx] }, ?_, ?_, hK⟩
    · rw [Parser.process_append, hSP, Parser.process_append, Parser.process_append]
    · rw [hz]; simp
  | more now j c R' hlt hrx hR' hcov ih =>
    intro P Qp lg hSP hnow hj hQp
    rw [wait_eq]
    rw [hnow, hj]
    simp only [hlt, if_true, hrx]
    obtain ⟨app, a1, a2⟩ := process_with_queue (p0.process P) Qp c
    rw [a2]
    have hRl : R' = R'.dropLast ++ [R'.getLast hR'] := (List.dropLast_concat_getLast hR').symm
    have hSd : S.dropLast = (P ++ c) ++ R'.dropLast := by
      rw [hSP, hRl, ← List.append_assoc, ← List.append_assoc, List.dropLast_concat]
      simp
    obtain ⟨appP, hp⟩ := queue_prefix p0 (P ++ c) R'.dropLast
    rw [← hSd, hM] at hp
    have hPc : (p0.process (P ++ c)).queue = (p0.process P).queue ++ app := by
      rw [Parser.process_append]; exact a1
    have hmapp : Markers (Qp ++ app) := by
      intro x hx
      rcases List.mem_append.mp hx with h | h
      · exact hQp x h
      · apply hMm x
        rw [hp, hPc]; simp [h]
    rw [drain_markers reg _ hmapp]
    simp only
    have := ih (P ++ c) [] { lg with now := now + tick (env.rx j).1, nRx := j + 1, calls := lg.calls ++ [.rx] }
      (by rw [hSP]; simp) rfl rfl (fun _ h => by simp at h)
    rw [Parser.process_append] at this
    rw [← hnow, ← hj] at this ⊢
    exact this

/-- the ACK stream `S2` arrives in time, counted from the moment `now'` the response was taken: either
    the receive call that completed the response has delivered all of it already (`z` is what that
    call read behind the response), or the rest comes by receive calls that start before
    `now' + delay` -/
def AckArrives (env : Env) (delay : Nat) (S2 : List Nat) (now' j' : Nat) (z : List Nat) : Prop :=
  (∃ w, z = S2 ++ w) ∨ (∃ R2, R2 ≠ [] ∧ S2 = z ++ R2 ∧ Covers env (now' + delay) now' j' R2)

/-- state 'wait-ack': the parser `p1` stood right behind the response, has since processed `z`, and
    the ACK stream arrives in time ⇒ the ACK is found -/
theorem pollWaitAck_finds (env : Env) (reg : Registry) (req : Cid) (delay : Nat) (hd : 0 < delay) (p1 : Parser)
    (S2 : List Nat) (M2 : List Packet) (pl2 : List Nat) (fa : RFrame) (hS2 : S2 ≠ [])
    (hM : (p1.process S2.dropLast).queue = M2) (hMm : Markers M2)
    (hQ : (p1.process S2).queue = M2 ++ [Packet.data ackCid pl2]) (hb : reg.build ackCid pl2 = some fa)
    (hck : checkAckNak req fa = .ack) (z : List Nat) (lg : Log)
    (h : AckArrives env delay S2 lg.now lg.nRx z) :
    (pollWaitAck env reg req (lg.now + delay) (p1.process z) lg).1 = true := by
  have hw : (wait env reg (lg.now + delay) (p1.process z) lg).1 = some fa := by
    rcases h with ⟨w, hz⟩ | ⟨R2, hR2, hS, hcov⟩
    · obtain ⟨app, ha⟩ := queue_prefix p1 S2 w
      rw [hQ] at ha
      refine wait_queued env reg _ _ lg M2 hMm ackCid pl2 fa hb app ?_ (by omega)
      rw [hz, ha]; simp
    · have hRl : R2 = R2.dropLast ++ [R2.getLast hR2] := (List.dropLast_concat_getLast hR2).symm
      have hSd : S2.dropLast = z ++ R2.dropLast := by
        rw [hS, hRl, ← List.append_assoc, List.dropLast_concat]
        simp
      obtain ⟨appP, hp⟩ := queue_prefix p1 z R2.dropLast
      rw [← hSd, hM] at hp
      have hmz : Markers (p1.process z).queue := fun x hx => hMm x (by rw [hp]; simp [hx])
      obtain ⟨z', rest, lg', hfin, -, -⟩ := wait_finds_full env reg (lg.now + delay) (fun _ _ _ => True) p1 S2 M2 ackCid pl2 fa
        hS2 hM hMm hQ hb lg.now lg.nRx R2 hcov.coversK z (p1.process z).queue lg hS rfl rfl hmz
      have he : ({ p1.process z with queue := (p1.process z).queue } : Parser) = p1.process z := rfl
      rw [he] at hfin
      rw [hfin]
  rw [pollWaitAck_eq]
  generalize wait env reg (lg.now + delay) (p1.process z) lg = res at hw
  obtain ⟨fo, p', lg'⟩ := res
  simp only at hw
  subst hw
  simp [hck]

/-- **one attempt of a configuration-class poll.** The response stream `S1` arrives in time and the
    ACK stream `S2` arrives in time after it ⇒ the attempt returns the response. -/
theorem pollAttempt_cfg_finds (env : Env) (reg : Registry) (req : Cid) (hcfg : req.cls = CLASS_CFG) (delay : Nat)
    (p0 : Parser) (hq0 : p0.queue = [])
    (S1 : List Nat) (M1 : List Packet) (pl1 : List Nat) (f : RFrame) (hS1 : S1 ≠ [])
    (hM1 : (p0.process S1.dropLast).queue = M1) (hMm1 : Markers M1)
    (hQ1 : (p0.process S1).queue = M1 ++ [Packet.data req pl1]) (hb1 : reg.build req pl1 = some f)
    (S2 : List Nat) (M2 : List Packet) (pl2 : List Nat) (fa : RFrame) (hS2 : S2 ≠ [])
    (hM2 : (({ p0.process S1 with queue := [] } : Parser).process S2.dropLast).queue = M2) (hMm2 : Markers M2)
    (hQ2 : (({ p0.process S1 with queue := [] } : Parser).process S2).queue = M2 ++ [Packet.data ackCid pl2])
    (hb2 : reg.build ackCid pl2 = some fa) (hck : checkAckNak req fa = .ack)
    (lg : Log) (hcov : CoversK env (lg.now + delay) (AckArrives env delay S2) lg.now lg.nRx S1) :
    (pollAttempt env reg req delay (lg.now + delay) p0 lg).1 = some f := by
  have hd : 0 < delay := by
    cases hcov with
    | last _ _ _ _ hlt _ _ _ => omega
    | more _ _ _ _ hlt _ _ _ => omega
  obtain ⟨z, rest, lg', hfin, hqz, hK⟩ := wait_finds_full env reg (lg.now + delay) (AckArrives env delay S2) p0 S1 M1 req pl1 f
    hS1 hM1 hMm1 hQ1 hb1 lg.now lg.nRx S1 hcov [] [] lg rfl rfl rfl (fun _ h => by simp at h)
  have he : ({ p0.process [] with queue := [] } : Parser) = p0 := by
    cases p0; simp only at hq0; subst hq0; rfl
  rw [he] at hfin
  -- the parser left behind is the one that stood behind the response and has processed `z`
  obtain ⟨app, a1, a2⟩ := process_with_queue (p0.process S1) [] z
  have happ : app = rest := by
    rw [← Parser.process_append, hqz, hQ1] at a1
    have : M1 ++ Packet.data req pl1 :: rest = M1 ++ [Packet.data req pl1] ++ rest := by simp
    rw [this] at a1
    exact (List.append_cancel_left a1).symm
  have hp' : ({ p0.process (S1 ++ z) with queue := rest } : Parser) = ({ p0.process S1 with queue := [] } : Parser).process z := by
    rw [a2, happ, Parser.process_append]; rfl
  have hack := pollWaitAck_finds env reg req delay hd { p0.process S1 with queue := [] } S2 M2 pl2 fa hS2 hM2 hMm2 hQ2 hb2 hck z lg' hK
  rw [pollAttempt_eq, hfin]
  simp only [(reg.build_some req pl1 f hb1).1, if_true, hcfg]
  rw [hp']
  generalize pollWaitAck env reg req (lg'.now + delay) (({ p0.process S1 with queue := [] } : Parser).process z) lg' = res at hack
  obtain ⟨b, p'', lg''⟩ := res
  simp only at hack
  subst hack
  rfl

end Ubx

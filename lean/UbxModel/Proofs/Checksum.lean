import UbxModel.Model.Checksum
import UbxModel.Spec.Wire
namespace Ubx
open Spec

theorem and_255 (n : Nat) : n &&& 0xFF = n % 256 := by
  have := Nat.and_two_pow_sub_one_eq_mod n 8
  simpa using this

theorem Ck.add_a (c : Ck) (x : Nat) : (c.add x).a = (c.a + x) % 256 := by simp [Ck.add, and_255]
theorem Ck.add_b (c : Ck) (x : Nat) : (c.add x).b = (c.b + (c.a + x) % 256) % 256 := by
  simp [Ck.add, and_255]

theorem Ck.addAll_cons (c : Ck) (x : Nat) (xs : List Nat) : c.addAll (x :: xs) = (c.add x).addAll xs := rfl
theorem Ck.addAll_nil (c : Ck) : c.addAll [] = c := rfl
theorem Ck.addAll_append (c : Ck) (xs ys : List Nat) : c.addAll (xs ++ ys) = (c.addAll xs).addAll ys := by
  simp [Ck.addAll, List.foldl_append]

theorem prefixSums_sum_mod (a a' : Nat) (xs : List Nat) (h : a % 256 = a' % 256) :
    (prefixSums a xs).sum % 256 = (prefixSums a' xs).sum % 256 := by
  induction xs generalizing a a' with
  | nil => rfl
  | cons x xs ih =>
    have := ih (a + x) (a' + x) (by omega)
    simp only [prefixSums, List.sum_cons]
    omega

theorem addAll_general (c : Ck) (s : List Nat) :
    (c.addAll s).a % 256 = (c.a + s.sum) % 256 ∧
    (c.addAll s).b % 256 = (c.b + (prefixSums c.a s).sum) % 256 := by
  induction s generalizing c with
  | nil => simp [Ck.addAll, prefixSums]
  | cons x xs ih =>
    have ih' := ih (c.add x)
    have hm := prefixSums_sum_mod ((c.a + x) % 256) (c.a + x) xs (by omega)
    simp only [Ck.addAll, List.foldl_cons] at ih' ⊢
    rw [Ck.add_a, Ck.add_b] at ih'
    simp only [prefixSums, List.sum_cons]
    omega

theorem add_in_range (c : Ck) (x : Nat) : (c.add x).a < 256 ∧ (c.add x).b < 256 := by
  rw [Ck.add_a, Ck.add_b]; omega

theorem addAll_in_range (c : Ck) (s : List Nat) (h : c.a < 256 ∧ c.b < 256) :
    (c.addAll s).a < 256 ∧ (c.addAll s).b < 256 := by
  induction s generalizing c with
  | nil => simpa [Ck.addAll] using h
  | cons x xs ih => exact ih (c.add x) (add_in_range c x)

theorem fletcher_closed (s : List Nat) : fletcher s = ⟨ckA s, ckB s⟩ := by
  have h := addAll_general Ck.zero s
  have r := addAll_in_range Ck.zero s (by decide)
  unfold fletcher ckA ckB
  cases hc : Ck.zero.addAll s with
  | mk a b =>
    rw [hc] at h r
    simp only [Ck.zero, Nat.zero_add] at h
    simp only [Ck.mk.injEq]
    dsimp only at h r
    omega

end Ubx

import UbxModel.Proofs.Fields
import UbxModel.Spec.Layouts
namespace Ubx
open Spec

/-- the named fields of a table with the offsets the sequential decoder gives them -/
def Table.layout : Table → Nat → Layout
  | [], _ => []
  | (n, .uint w) :: r, o => (n, o, w, .u) :: Table.layout r (o + w)
  | (n, .sint w) :: r, o => (n, o, w, .i) :: Table.layout r (o + w)
  | (n, .text w) :: r, o => (n, o, w, .ch) :: Table.layout r (o + w)
  | (_, .pad w) :: r, o => Table.layout r (o + w)

def kindOf : Ty → Nat → Kind
  | .u, w => .uint w
  | .i, w => .sint w
  | .ch, w => .text w

/-- every layout entry is an item of the table at that prefix-sum offset -/
theorem layout_mem (t : Table) (o : Nat) (name : String) (off w : Nat) (ty : Ty)
    (h : (name, off, w, ty) ∈ t.layout o) :
    ∃ i, t[i]? = some (name, kindOf ty w) ∧ o + t.offsetOf i = off := by
  induction t generalizing o with
  | nil => simp [Table.layout] at h
  | cons x r ih =>
    obtain ⟨n, k⟩ := x
    cases k with
    | uint w' =>
      simp only [Table.layout, List.mem_cons, Prod.mk.injEq] at h
      rcases h with ⟨rfl, rfl, rfl, rfl⟩ | h
      · exact ⟨0, by simp [kindOf], by simp [Table.offsetOf_zero]⟩
      · obtain ⟨i, h1, h2⟩ := ih (o + w') h
        exact ⟨i + 1, by simpa using h1, by rw [Table.offsetOf_succ]; simp [Kind.width]; omega⟩
    | sint w' =>
      simp only [Table.layout, List.mem_cons, Prod.mk.injEq] at h
      rcases h with ⟨rfl, rfl, rfl, rfl⟩ | h
      · exact ⟨0, by simp [kindOf], by simp [Table.offsetOf_zero]⟩
      · obtain ⟨i, h1, h2⟩ := ih (o + w') h
        exact ⟨i + 1, by simpa using h1, by rw [Table.offsetOf_succ]; simp [Kind.width]; omega⟩
    | text w' =>
      simp only [Table.layout, List.mem_cons, Prod.mk.injEq] at h
      rcases h with ⟨rfl, rfl, rfl, rfl⟩ | h
      · exact ⟨0, by simp [kindOf], by simp [Table.offsetOf_zero]⟩
      · obtain ⟨i, h1, h2⟩ := ih (o + w') h
        exact ⟨i + 1, by simpa using h1, by rw [Table.offsetOf_succ]; simp [Kind.width]; omega⟩
    | pad w' =>
      simp only [Table.layout] at h
      obtain ⟨i, h1, h2⟩ := ih (o + w') h
      exact ⟨i + 1, by simpa using h1, by rw [Table.offsetOf_succ]; simp [Kind.width]; omega⟩

/-- the value the specification prescribes for a layout entry -/
def specValue (pl : List Nat) (off w : Nat) : Ty → Val
  | .u => .int (Spec.read pl off w false)
  | .i => .int (Spec.read pl off w true)
  | .ch => .str (Spec.readText pl off w)

/-- **decoding a table yields, for every entry of its layout, the prescribed value** -/
theorem decode_layout (t : Table) (pl : List Nat) (vs : List Val) (rem : List Nat)
    (h : t.decode pl = .ok (vs, rem)) (name : String) (off w : Nat) (ty : Ty)
    (hm : (name, off, w, ty) ∈ t.layout 0) :
    ∃ (i : Nat) (k : Kind), t[i]? = some (name, k) ∧ vs[i]? = some (specValue pl off w ty) := by
  obtain ⟨i, h1, h2⟩ := layout_mem t 0 name off w ty hm
  have hd := decode_reads t pl 0 vs rem (by simpa using h)
  obtain ⟨-, -, h3⟩ := hd
  have := h3 i name w
  refine ⟨i, kindOf ty w, h1, ?_⟩
  simp only [Nat.zero_add] at h2 this
  cases ty with
  | u => simpa [specValue, h2] using this.1 (by simpa [kindOf] using h1)
  | i => simpa [specValue, h2] using this.2.1 (by simpa [kindOf] using h1)
  | ch => simpa [specValue, h2] using this.2.2 (by simpa [kindOf] using h1)

end Ubx

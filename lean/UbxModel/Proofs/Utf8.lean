import UbxModel.Proofs.FieldsRoundtrip2
import UbxModel.Spec.Utf8
/-! The model's validity test for text fields accepts exactly the encodings of sequences of Unicode scalar values, and
    the encoding is injective: a text field's bytes and its text determine each other. -/

namespace Ubx
open Ubx.Spec

theorem valid_encodeScalar_append (c : Nat) (h : isScalar c) (rest : List Nat) :
    validUtf8 (encodeScalar c ++ rest) = validUtf8 rest := by
  unfold encodeScalar
  split
  · rename_i h1
    simp only [List.cons_append, List.nil_append]
    rw [validUtf8_cons]; simp [h1]
  · split
    · rename_i h1 h2
      simp only [List.cons_append, List.nil_append]
      rw [validUtf8_cons]
      have a1 : ¬ (0xC0 + c / 64 < 0x80) := by omega
      have a2 : (decide (0xC2 ≤ 0xC0 + c / 64) && decide (0xC0 + c / 64 ≤ 0xDF)) = true := by
        simp only [Bool.and_eq_true, decide_eq_true_eq]; omega
      have a3 : isCont (0x80 + c % 64) = true := by
        simp only [isCont, Bool.and_eq_true, decide_eq_true_eq]; omega
      simp only [a1, a2, a3, if_false, if_true, Bool.true_and]
    · split
      · rename_i h1 h2 h3
        simp only [List.cons_append, List.nil_append]
        rw [validUtf8_cons]
        have a1 : ¬ (0xE0 + c / 4096 < 0x80) := by omega
        have a2 : ¬ ((decide (0xC2 ≤ 0xE0 + c / 4096) && decide (0xE0 + c / 4096 ≤ 0xDF)) = true) := by
          simp only [Bool.and_eq_true, decide_eq_true_eq]; omega
        have a3 : (decide (0xE0 ≤ 0xE0 + c / 4096) && decide (0xE0 + c / 4096 ≤ 0xEF)) = true := by
          simp only [Bool.and_eq_true, decide_eq_true_eq]; omega
        have a4 : isCont (0x80 + c % 64) = true := by
          simp only [isCont, Bool.and_eq_true, decide_eq_true_eq]; omega
        have a5 : (if 0xE0 + c / 4096 = 0xE0 then decide (0xA0 ≤ 0x80 + c / 64 % 64) && decide (0x80 + c / 64 % 64 ≤ 0xBF)
            else if 0xE0 + c / 4096 = 0xED then decide (0x80 ≤ 0x80 + c / 64 % 64) && decide (0x80 + c / 64 % 64 ≤ 0x9F)
            else isCont (0x80 + c / 64 % 64)) = true := by
          unfold isScalar at h
          split
          · simp only [Bool.and_eq_true, decide_eq_true_eq]; omega
          · split
            · simp only [Bool.and_eq_true, decide_eq_true_eq]; omega
            · simp only [isCont, Bool.and_eq_true, decide_eq_true_eq]; omega
        simp only [a1, a2, a3, a4, a5, if_false, if_true, Bool.true_and, Bool.false_eq_true]
      · rename_i h1 h2 h3
        unfold isScalar at h
        simp only [List.cons_append, List.nil_append]
        rw [validUtf8_cons]
        have a1 : ¬ (0xF0 + c / 262144 < 0x80) := by omega
        have a2 : ¬ ((decide (0xC2 ≤ 0xF0 + c / 262144) && decide (0xF0 + c / 262144 ≤ 0xDF)) = true) := by
          simp only [Bool.and_eq_true, decide_eq_true_eq]; omega
        have a3 : ¬ ((decide (0xE0 ≤ 0xF0 + c / 262144) && decide (0xF0 + c / 262144 ≤ 0xEF)) = true) := by
          simp only [Bool.and_eq_true, decide_eq_true_eq]; omega
        have a3' : (decide (0xF0 ≤ 0xF0 + c / 262144) && decide (0xF0 + c / 262144 ≤ 0xF4)) = true := by
          simp only [Bool.and_eq_true, decide_eq_true_eq]; omega
        have a4 : isCont (0x80 + c % 64) = true := by
          simp only [isCont, Bool.and_eq_true, decide_eq_true_eq]; omega
        have a4' : isCont (0x80 + c / 64 % 64) = true := by
          simp only [isCont, Bool.and_eq_true, decide_eq_true_eq]; omega
        have a5 : (if 0xF0 + c / 262144 = 0xF0 then decide (0x90 ≤ 0x80 + c / 4096 % 64) && decide (0x80 + c / 4096 % 64 ≤ 0xBF)
            else if 0xF0 + c / 262144 = 0xF4 then decide (0x80 ≤ 0x80 + c / 4096 % 64) && decide (0x80 + c / 4096 % 64 ≤ 0x8F)
            else isCont (0x80 + c / 4096 % 64)) = true := by
          split
          · simp only [Bool.and_eq_true, decide_eq_true_eq]; omega
          · split
            · simp only [Bool.and_eq_true, decide_eq_true_eq]; omega
            · simp only [isCont, Bool.and_eq_true, decide_eq_true_eq]; omega
        simp only [a1, a2, a3, a3', a4, a4', a5, if_false, if_true, Bool.true_and, Bool.false_eq_true]

/-- every encoded text is accepted by the decoder's validity check -/
theorem valid_encodeText (cs : List Nat) (h : ∀ c ∈ cs, isScalar c) : validUtf8 (encodeText cs) = true := by
  induction cs with
  | nil => simp [encodeText, validUtf8]
  | cons c r ih =>
    simp only [encodeText, List.flatMap_cons]
    rw [valid_encodeScalar_append c (h c (by simp))]
    exact ih (fun x hx => h x (by simp [hx]))


/-- …and everything the validity check accepts is the encoding of a sequence of scalar values -/
theorem valid_is_encoded (bs : List Nat) (h : validUtf8 bs = true) :
    ∃ cs, (∀ c ∈ cs, isScalar c) ∧ encodeText cs = bs := by
  fun_induction validUtf8 bs with
  | case1 => exact ⟨[], by simp, rfl⟩
  | case2 b0 rest h0 ih =>
    obtain ⟨cs, hs, he⟩ := ih h
    refine ⟨b0 :: cs, ?_, ?_⟩
    · intro c hc
      rcases List.mem_cons.mp hc with rfl | hc
      · left; omega
      · exact hs c hc
    · simp only [encodeText, List.flatMap_cons] at he ⊢
      rw [he]; simp [encodeScalar, h0]
  | case3 b0 h0 h1 b1 r ih =>
    simp only [Bool.and_eq_true, isCont, decide_eq_true_eq] at h h1
    obtain ⟨cs, hs, he⟩ := ih h.2
    refine ⟨((b0 - 0xC0) * 64 + (b1 - 0x80)) :: cs, ?_, ?_⟩
    · intro c hc
      rcases List.mem_cons.mp hc with hc | hc
      · rw [hc]; left; omega
      · exact hs c hc
    · simp only [encodeText, List.flatMap_cons] at he ⊢
      rw [he]
      have e1 : ¬ ((b0 - 0xC0) * 64 + (b1 - 0x80) < 0x80) := by omega
      have e2 : (b0 - 0xC0) * 64 + (b1 - 0x80) < 0x800 := by omega
      simp only [encodeScalar, e1, e2, if_false, if_true, List.cons_append, List.nil_append, List.cons.injEq, and_true]
      omega
  | case4 => cases h
  | case5 b0 h0 h1 h2 b1 b2 r ih =>
    simp only [Bool.and_eq_true, isCont, decide_eq_true_eq] at h h1 h2
    obtain ⟨⟨hb1, hb2⟩, hr⟩ := h
    obtain ⟨cs, hs, he⟩ := ih hr
    have hb1' : (b0 = 0xE0 → 0xA0 ≤ b1 ∧ b1 ≤ 0xBF) ∧ (b0 = 0xED → 0x80 ≤ b1 ∧ b1 ≤ 0x9F) ∧ (0x80 ≤ b1 ∧ b1 ≤ 0xBF) := by
      split at hb1
      · simp only [Bool.and_eq_true, decide_eq_true_eq] at hb1; omega
      · split at hb1
        · simp only [Bool.and_eq_true, decide_eq_true_eq] at hb1; omega
        · simp only [Bool.and_eq_true, decide_eq_true_eq] at hb1; omega
    refine ⟨((b0 - 0xE0) * 4096 + (b1 - 0x80) * 64 + (b2 - 0x80)) :: cs, ?_, ?_⟩
    · intro c hc
      rcases List.mem_cons.mp hc with hc | hc
      · rw [hc]; unfold isScalar; omega
      · exact hs c hc
    · simp only [encodeText, List.flatMap_cons] at he ⊢
      rw [he]
      have e1 : ¬ ((b0 - 0xE0) * 4096 + (b1 - 0x80) * 64 + (b2 - 0x80) < 0x80) := by omega
      have e2 : ¬ ((b0 - 0xE0) * 4096 + (b1 - 0x80) * 64 + (b2 - 0x80) < 0x800) := by omega
      have e3 : (b0 - 0xE0) * 4096 + (b1 - 0x80) * 64 + (b2 - 0x80) < 0x10000 := by omega
      simp only [encodeScalar, e1, e2, e3, if_false, if_true, List.cons_append, List.nil_append, List.cons.injEq, and_true]
      omega
  | case6 => cases h
  | case7 b0 h0 h1 h2 h3 b1 b2 b3 r ih =>
    simp only [Bool.and_eq_true, isCont, decide_eq_true_eq] at h h1 h2 h3
    obtain ⟨⟨⟨hb1, hb2⟩, hb3⟩, hr⟩ := h
    obtain ⟨cs, hs, he⟩ := ih hr
    have hb1' : (b0 = 0xF0 → 0x90 ≤ b1 ∧ b1 ≤ 0xBF) ∧ (b0 = 0xF4 → 0x80 ≤ b1 ∧ b1 ≤ 0x8F) ∧ (0x80 ≤ b1 ∧ b1 ≤ 0xBF) := by
      split at hb1
      · simp only [Bool.and_eq_true, decide_eq_true_eq] at hb1; omega
      · split at hb1
        · simp only [Bool.and_eq_true, decide_eq_true_eq] at hb1; omega
        · simp only [Bool.and_eq_true, decide_eq_true_eq] at hb1; omega
    refine ⟨((b0 - 0xF0) * 262144 + (b1 - 0x80) * 4096 + (b2 - 0x80) * 64 + (b3 - 0x80)) :: cs, ?_, ?_⟩
    · intro c hc
      rcases List.mem_cons.mp hc with hc | hc
      · rw [hc]; unfold isScalar; omega
      · exact hs c hc
    · simp only [encodeText, List.flatMap_cons] at he ⊢
      rw [he]
      have e1 : ¬ ((b0 - 0xF0) * 262144 + (b1 - 0x80) * 4096 + (b2 - 0x80) * 64 + (b3 - 0x80) < 0x80) := by omega
      have e2 : ¬ ((b0 - 0xF0) * 262144 + (b1 - 0x80) * 4096 + (b2 - 0x80) * 64 + (b3 - 0x80) < 0x800) := by omega
      have e3 : ¬ ((b0 - 0xF0) * 262144 + (b1 - 0x80) * 4096 + (b2 - 0x80) * 64 + (b3 - 0x80) < 0x10000) := by omega
      simp only [encodeScalar, e1, e2, e3, if_false, if_true, List.cons_append, List.nil_append, List.cons.injEq, and_true]
      omega
  | case8 => cases h
  | case9 => cases h

/-- the first scalar of an encoded text can be read back: lead-byte ranges of the four lengths are disjoint -/
theorem encodeScalar_prefix_inj (c c' : Nat) (r r' : List Nat) 
    (h : encodeScalar c ++ r = encodeScalar c' ++ r') : c = c' ∧ r = r' := by
  by_cases a1 : c < 0x80 <;> by_cases a2 : c < 0x800 <;> by_cases a3 : c < 0x10000 <;>
  by_cases b1 : c' < 0x80 <;> by_cases b2 : c' < 0x800 <;> by_cases b3 : c' < 0x10000 <;>
  simp only [encodeScalar, a1, a2, a3, b1, b2, b3, if_true, if_false, List.cons_append, List.nil_append, List.cons.injEq] at h <;>
  first | (exfalso; omega) | exact ⟨by omega, by simp only [h]⟩

theorem encodeScalar_length_pos (c : Nat) : 0 < (encodeScalar c).length := by
  unfold encodeScalar
  split
  · simp
  · split
    · simp
    · split <;> simp

/-- two texts with the same encoding are the same text -/
theorem encodeText_inj (cs cs' : List Nat) (h : ∀ c ∈ cs, isScalar c) (h' : ∀ c ∈ cs', isScalar c)
    (he : encodeText cs = encodeText cs') : cs = cs' := by
  induction cs generalizing cs' with
  | nil =>
    cases cs' with
    | nil => rfl
    | cons c' r' =>
      exfalso
      simp only [encodeText, List.flatMap_nil, List.flatMap_cons] at he
      have := encodeScalar_length_pos c'
      have hl := congrArg List.length he
      simp only [List.length_nil, List.length_append] at hl; omega
  | cons c r ih =>
    cases cs' with
    | nil =>
      exfalso
      simp only [encodeText, List.flatMap_nil, List.flatMap_cons] at he
      have := encodeScalar_length_pos c
      have hl := congrArg List.length he
      simp only [List.length_nil, List.length_append] at hl; omega
    | cons c' r' =>
      simp only [encodeText, List.flatMap_cons] at he
      obtain ⟨e1, e2⟩ := encodeScalar_prefix_inj c c' _ _ he
      subst e1
      rw [ih r' (fun x hx => h x (by simp [hx])) (fun x hx => h' x (by simp [hx])) e2]

theorem validUtf8_of_append_zero (a : List Nat) (h : validUtf8 (a ++ [0]) = true) : validUtf8 a = true := by
  fun_induction validUtf8 a with
  | case1 => rfl
  | case2 b0 rest h0 ih =>
    rw [List.cons_append, validUtf8_cons] at h; simp only [h0, if_true] at h; exact ih h
  | case3 b0 h0 h1 b1 r ih =>
    rw [List.cons_append, List.cons_append, validUtf8_cons] at h
    simp only [h0, h1, if_false, if_true, Bool.and_eq_true] at h ⊢
    exact ⟨h.1, ih h.2⟩
  | case4 b0 rest h0 h1 hn =>
    exfalso
    cases rest with
    | cons x xs => exact hn x xs rfl
    | nil =>
      rw [List.cons_append, List.nil_append, validUtf8_cons] at h
      simp [h0, h1, isCont] at h
  | case5 b0 h0 h1 h2 b1 b2 r ih =>
    rw [List.cons_append, List.cons_append, List.cons_append, validUtf8_cons] at h
    simp only [h0, h1, h2, if_false, if_true, Bool.false_eq_true, Bool.and_eq_true] at h ⊢
    exact ⟨h.1, ih h.2⟩
  | case6 b0 rest h0 h1 h2 hn =>
    exfalso
    cases rest with
    | nil =>
      rw [List.cons_append, List.nil_append, validUtf8_cons] at h
      simp [h0, h1, h2] at h
    | cons x xs =>
      cases xs with
      | cons y ys => exact hn x y ys rfl
      | nil =>
        rw [List.cons_append, List.cons_append, List.nil_append, validUtf8_cons] at h
        simp [h0, h1, h2, isCont] at h
  | case7 b0 h0 h1 h2 h3 b1 b2 b3 r ih =>
    rw [List.cons_append, List.cons_append, List.cons_append, List.cons_append, validUtf8_cons] at h
    simp only [h0, h1, h2, h3, if_false, if_true, Bool.false_eq_true, Bool.and_eq_true] at h ⊢
    exact ⟨h.1, ih h.2⟩
  | case8 b0 rest h0 h1 h2 h3 hn =>
    exfalso
    cases rest with
    | nil =>
      rw [List.cons_append, List.nil_append, validUtf8_cons] at h
      simp [h0, h1, h2, h3] at h
    | cons x xs =>
      cases xs with
      | nil =>
        rw [List.cons_append, List.cons_append, List.nil_append, validUtf8_cons] at h
        simp [h0, h1, h2, h3] at h
      | cons y ys =>
        cases ys with
        | cons z zs => exact hn x y z zs rfl
        | nil =>
          rw [List.cons_append, List.cons_append, List.cons_append, List.nil_append, validUtf8_cons] at h
          simp [h0, h1, h2, h3, isCont] at h
  | case9 b0 rest h0 h1 h2 h3 =>
    rw [List.cons_append, validUtf8_cons] at h
    simp [h0, h1, h2, h3] at h

theorem validUtf8_of_append_zeros (a : List Nat) (k : Nat) (h : validUtf8 (a ++ List.replicate k 0) = true) :
    validUtf8 a = true := by
  induction k with
  | zero => simpa using h
  | succ k ih =>
    apply ih
    apply validUtf8_of_append_zero
    rw [List.append_assoc, ← List.replicate_succ']
    exact h

/-- text without its NUL padding is still text -/
theorem validUtf8_stripNuls (l : List Nat) (h : validUtf8 l = true) : validUtf8 (stripNuls l) = true := by
  obtain ⟨p, -⟩ := stripNuls_pad l
  rw [← p] at h
  exact validUtf8_of_append_zeros _ _ h

end Ubx

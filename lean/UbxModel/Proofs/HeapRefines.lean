import UbxModel.Proofs.HeapParser
import UbxModel.Proofs.ParserBasic
namespace Ubx

def HParser.deref (h : HParser) (b : Nat) : List Nat := h.bufs[b]?.getD []

def HParser.derefPacket (h : HParser) : HPacket → Packet
  | .data cid b => .data cid (h.deref b)
  | .crcError => .crcError

/-- the value-level view of the heap parser: exactly the parser of `Model/ParserUbx` -/
def HParser.abs (h : HParser) : Parser :=
  { st := h.st, msgClass := h.msgClass, msgId := h.msgId, msgLen := h.msgLen, ofs := h.ofs,
    msgData := h.deref h.cur, cka := h.cka, ckb := h.ckb, ck := h.ck,
    queue := h.queue.map h.derefPacket, filter := h.filter, framesRx := h.framesRx }

theorem map_deref_congr (h h' : HParser) (q : List HPacket)
    (hsame : ∀ cid b, HPacket.data cid b ∈ q → h'.bufs[b]? = h.bufs[b]?) :
    q.map h'.derefPacket = q.map h.derefPacket := by
  apply List.map_congr_left
  intro x hx
  cases x with
  | crcError => rfl
  | data cid b => simp [HParser.derefPacket, HParser.deref, hsame cid b hx]

theorem mem_shared_of_queue (h : HParser) (cid : Cid) (b : Nat) (hm : HPacket.data cid b ∈ h.queue) : b ∈ h.shared := by
  simp only [HParser.shared, List.mem_append, List.mem_filterMap]
  exact Or.inr ⟨.data cid b, hm, rfl⟩

/-- **refinement**: one step of the heap parser is one step of the value-level parser -/
theorem HParser.abs_step (h : HParser) (hw : h.WF) (d : Nat) : (h.step d).abs = h.abs.step d := by
  obtain ⟨w', pres⟩ := h.step_preserves hw d
  have hqueue : ∀ h' : HParser, (∀ b ∈ h.shared, h'.bufs[b]? = h.bufs[b]?) →
      h.queue.map h'.derefPacket = h.queue.map h.derefPacket := fun h' hs =>
    map_deref_congr h h' h.queue (fun cid b hm => hs b (mem_shared_of_queue h cid b hm))
  cases hst : h.st with
  | init =>
    by_cases hd : d = 0xB5
    · rw [step_init_sync h.abs d (by simp [HParser.abs, hst]) hd]
      simp [HParser.step, hst, hd, HParser.abs, HParser.deref, HParser.derefPacket]
    · rw [step_init_other h.abs d (by simp [HParser.abs, hst]) hd]
      simp [HParser.step, hst, hd]
  | sync =>
    by_cases h62 : d = 0x62
    · rw [step_sync_62 h.abs d (by simp [HParser.abs, hst]) h62]
      have hs : ∀ b ∈ h.shared, (h.reset).bufs[b]? = h.bufs[b]? := by
        intro b hb; have := hw.valid b hb
        simp [HParser.reset, List.getElem?_append_left this]
      have hq := hqueue { h.reset with st := .cls } hs
      have e : h.step d = { h.reset with st := .cls } := by
        unfold HParser.step; rw [hst]; simp only []; rw [if_pos h62]
      have hc : HParser.deref { h.reset with st := .cls } (h.reset).cur = [] := by
        simp [HParser.deref, HParser.reset]
      rw [e]
      simp only [HParser.abs, Parser.reset, Parser.mk.injEq, true_and, and_true]
      refine ⟨rfl, rfl, rfl, rfl, hc, rfl, rfl, rfl, hq, rfl, rfl⟩
    · by_cases hb5 : d = 0xB5
      · rw [step_sync_b5 h.abs d (by simp [HParser.abs, hst]) hb5]
        simp [HParser.step, hst, hb5]
      · rw [step_sync_other h.abs d (by simp [HParser.abs, hst]) h62 hb5]
        simp [HParser.step, hst, h62, hb5, HParser.abs, HParser.deref, HParser.derefPacket]
  | cls =>
    rw [step_cls h.abs d (by simp [HParser.abs, hst])]
    simp [HParser.step, hst, HParser.abs, HParser.deref, HParser.derefPacket]
  | id =>
    rw [step_id h.abs d (by simp [HParser.abs, hst])]
    simp [HParser.step, hst, HParser.abs, HParser.deref, HParser.derefPacket]
  | len1 =>
    rw [step_len1 h.abs d (by simp [HParser.abs, hst])]
    simp [HParser.step, hst, HParser.abs, HParser.deref, HParser.derefPacket]
  | len2 =>
    by_cases h0 : h.msgLen + d * 256 = 0
    · rw [step_len2_zero h.abs d (by simp [HParser.abs, hst]) (by simpa [HParser.abs] using h0)]
      have e : h.step d = { h with msgLen := h.msgLen + d * 256, ck := h.ck.add d, st := .crc1 } := by
        unfold HParser.step; rw [hst]; simp only []; rw [if_pos h0]
      rw [e]; simp [HParser.abs, HParser.deref, HParser.derefPacket]
    · by_cases hbig : h.msgLen + d * 256 > MAXLEN
      · rw [step_len2_long h.abs d (by simp [HParser.abs, hst]) (by simpa [HParser.abs] using hbig)]
        have e : h.step d = { h with msgLen := h.msgLen + d * 256, ck := h.ck.add d, st := .init } := by
          unfold HParser.step; rw [hst]; simp only []; rw [if_neg h0, if_pos hbig]
        rw [e]; simp [HParser.abs, HParser.deref, HParser.derefPacket]
      · rw [step_len2_data h.abs d (by simp [HParser.abs, hst]) (by simpa [HParser.abs] using h0)
          (by simpa [HParser.abs] using hbig)]
        have e : h.step d = { h with msgLen := h.msgLen + d * 256, ck := h.ck.add d, ofs := 0, st := .data } := by
          unfold HParser.step; rw [hst]; simp only []; rw [if_neg h0, if_neg hbig]
        rw [e]; simp [HParser.abs, HParser.deref, HParser.derefPacket]
  | data =>
    have hpr := hw.priv (by simp [hst]) (by simp [hst])
    have hs : ∀ b ∈ h.shared, (h.append d)[b]? = h.bufs[b]? := by
      intro b hb
      have hne : h.cur ≠ b := fun e => hpr (e ▸ hb)
      exact modify_other _ _ _ _ hne
    have hcur : (h.append d)[h.cur]?.getD [] = h.bufs[h.cur]?.getD [] ++ [d] := by
      have := hw.cur
      simp [HParser.append, List.getElem?_modify, List.getElem?_eq_getElem this]
    by_cases hl : h.ofs + 1 = h.msgLen
    · rw [step_data_last h.abs d (by simp [HParser.abs, hst]) (by simpa [HParser.abs] using hl)]
      have e : h.step d = { h with bufs := h.append d, ck := h.ck.add d, ofs := h.ofs + 1, st := .crc1 } := by
        unfold HParser.step; rw [hst]; simp only []; rw [if_pos hl]
      have hq := hqueue { h with bufs := h.append d, ck := h.ck.add d, ofs := h.ofs + 1, st := .crc1 } hs
      have hc : HParser.deref { h with bufs := h.append d, ck := h.ck.add d, ofs := h.ofs + 1, st := .crc1 } h.cur
          = h.deref h.cur ++ [d] := hcur
      rw [e]
      simp only [HParser.abs, Parser.mk.injEq, true_and, and_true]
      exact ⟨hc, hq⟩
    · rw [step_data_more h.abs d (by simp [HParser.abs, hst]) (by simpa [HParser.abs] using hl)]
      have e : h.step d = { h with bufs := h.append d, ck := h.ck.add d, ofs := h.ofs + 1 } := by
        unfold HParser.step; rw [hst]; simp only []; rw [if_neg hl]
      have hq := hqueue { h with bufs := h.append d, ck := h.ck.add d, ofs := h.ofs + 1 } hs
      have hc : HParser.deref { h with bufs := h.append d, ck := h.ck.add d, ofs := h.ofs + 1 } h.cur
          = h.deref h.cur ++ [d] := hcur
      rw [e]
      simp only [HParser.abs, Parser.mk.injEq, true_and, and_true]
      exact ⟨hc, hq⟩
  | crc1 =>
    rw [step_crc1 h.abs d (by simp [HParser.abs, hst])]
    simp [HParser.step, hst, HParser.abs, HParser.deref, HParser.derefPacket]
  | crc2 =>
    by_cases hok : h.ck.a = h.cka ∧ h.ck.b = d
    · rw [step_crc2_ok h.abs d (by simp [HParser.abs, hst]) (by simpa [HParser.abs] using hok)]
      simp only [HParser.step, hst, hok, and_self, if_true, HParser.abs, Parser.passes]
      by_cases hf : filterPasses h.filter ⟨h.msgClass, h.msgId⟩ = true
      · simp [hf, HParser.derefPacket, HParser.deref]
      · simp [hf, HParser.derefPacket, HParser.deref]
    · rw [step_crc2_bad h.abs d (by simp [HParser.abs, hst]) (by simpa [HParser.abs] using hok)]
      simp [HParser.step, hst, hok, HParser.abs, HParser.derefPacket, HParser.deref]

end Ubx

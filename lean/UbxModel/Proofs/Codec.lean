import UbxModel.Model.Codec
import UbxModel.Spec.Wire
namespace Ubx
open Spec

theorem leBytes_length (w n : Nat) : (leBytes w n).length = w := by
  induction w generalizing n with
  | zero => rfl
  | succ w ih => simp [leBytes, ih]

theorem take_leBytes (w n : Nat) : (leBytes w n).take w = leBytes w n := by
  rw [List.take_of_length_le]; simp [leBytes_length]

theorem leBytes_bytes (w n : Nat) : Bytes (leBytes w n) := by
  induction w generalizing n with
  | zero => intro b hb; simp [leBytes] at hb
  | succ w ih =>
    intro b hb
    simp only [leBytes, List.mem_cons] at hb
    rcases hb with rfl | hb
    · omega
    · exact ih _ b hb

theorem leVal_leBytes (w n : Nat) : leVal (leBytes w n) = n % 256 ^ w := by
  induction w generalizing n with
  | zero => simp [leBytes, leVal, Nat.mod_one]
  | succ w ih =>
    simp only [leBytes, leVal, ih]
    rw [Nat.pow_succ', Nat.mod_mul]

theorem leVal_lt (bs : List Nat) (h : Bytes bs) : leVal bs < 256 ^ bs.length := by
  induction bs with
  | nil => simp [leVal]
  | cons b bs ih =>
    have hb : b < 256 := h b (by simp)
    have := ih (fun x hx => h x (by simp [hx]))
    simp only [leVal, List.length_cons, Nat.pow_succ]
    omega

theorem leBytes_leVal (bs : List Nat) (h : Bytes bs) : leBytes bs.length (leVal bs) = bs := by
  induction bs with
  | nil => rfl
  | cons b bs ih =>
    have hb : b < 256 := h b (by simp)
    have := ih (fun x hx => h x (by simp [hx]))
    simp only [List.length_cons, leBytes, leVal]
    have h1 : (b + 256 * leVal bs) % 256 = b := by omega
    have h2 : (b + 256 * leVal bs) / 256 = leVal bs := by omega
    rw [h1, h2, this]

theorem pow8 (w : Nat) (hw : 0 < w) : 2 ^ (8 * w) = 2 * 2 ^ (8 * w - 1) := by
  have : 8 * w = (8 * w - 1) + 1 := by omega
  rw [this, Nat.pow_succ]; simp; try omega

theorem pow_256 (w : Nat) : 256 ^ w = 2 ^ (8 * w) := by
  rw [Nat.pow_mul]

/-- signed round trips (w ≥ 1) -/
theorem ofSigned_toSigned (w n : Nat) (hw : 0 < w) (hn : n < 2 ^ (8 * w)) : ofSigned w (toSigned w n) = n := by
  have hp := pow8 w hw
  unfold ofSigned toSigned
  generalize 2 ^ (8 * w - 1) = H at *
  generalize 2 ^ (8 * w) = M at *
  split <;> split <;> omega

theorem toSigned_ofSigned (w : Nat) (v : Int) (hw : 0 < w)
    (hlo : -((2 ^ (8 * w - 1) : Nat) : Int) ≤ v) (hhi : v < (2 ^ (8 * w - 1) : Nat)) :
    toSigned w (ofSigned w v) = v := by
  have hp := pow8 w hw
  unfold ofSigned toSigned
  generalize 2 ^ (8 * w - 1) = H at *
  generalize 2 ^ (8 * w) = M at *
  split <;> split <;> omega

theorem ofSigned_lt (w : Nat) (v : Int) (hw : 0 < w)
    (hlo : -((2 ^ (8 * w - 1) : Nat) : Int) ≤ v) (hhi : v < (2 ^ (8 * w - 1) : Nat)) :
    ofSigned w v < 2 ^ (8 * w) := by
  have hp := pow8 w hw
  unfold ofSigned
  generalize 2 ^ (8 * w - 1) = H at *
  generalize 2 ^ (8 * w) = M at *
  split <;> omega

theorem toSigned_range (w n : Nat) (hw : 0 < w) (hn : n < 2 ^ (8 * w)) :
    -((2 ^ (8 * w - 1) : Nat) : Int) ≤ toSigned w n ∧ toSigned w n < (2 ^ (8 * w - 1) : Nat) := by
  have hp := pow8 w hw
  unfold toSigned
  generalize 2 ^ (8 * w - 1) = H at *
  generalize 2 ^ (8 * w) = M at *
  split <;> omega

/-! ### pack ∘ unpack and unpack ∘ pack -/

theorem packU_unpackU (w : Nat) (bs : List Nat) (h : Bytes bs) (hl : bs.length = w) :
    ∃ v, unpackU w bs = .ok v ∧ packU w v = .ok bs := by
  subst hl
  refine ⟨(leVal bs : Int), ?_, ?_⟩
  · simp [unpackU]
  · have hlt := leVal_lt bs h
    rw [pow_256] at hlt
    have : (0 : Int) ≤ (leVal bs : Int) ∧ ((leVal bs : Nat) : Int) < ((2 ^ (8 * bs.length) : Nat) : Int) := by
      constructor
      · omega
      · exact_mod_cast hlt
    simp only [packU, this, and_self, if_true, Int.toNat_natCast]
    rw [leBytes_leVal bs h]

theorem unpackU_packU (w : Nat) (v : Int) (bs : List Nat) (h : packU w v = .ok bs) :
    unpackU w bs = .ok v ∧ bs.length = w ∧ Bytes bs := by
  unfold packU at h
  split at h
  · rename_i hr
    simp only [Except.ok.injEq] at h
    subst h
    refine ⟨?_, leBytes_length _ _, leBytes_bytes _ _⟩
    simp only [unpackU, leBytes_length, Nat.lt_irrefl, if_false]
    rw [take_leBytes, leVal_leBytes, pow_256]
    have h1 : v.toNat < 2 ^ (8 * w) := by
      have := hr.2
      omega
    rw [Nat.mod_eq_of_lt h1]
    congr 1
    omega
  · cases h

theorem packI_unpackI (w : Nat) (hw : 0 < w) (bs : List Nat) (h : Bytes bs) (hl : bs.length = w) :
    ∃ v, unpackI w bs = .ok v ∧ packI w v = .ok bs := by
  subst hl
  have hlt := leVal_lt bs h
  rw [pow_256] at hlt
  refine ⟨toSigned bs.length (leVal bs), ?_, ?_⟩
  · simp [unpackI]
  · have hr := toSigned_range bs.length (leVal bs) hw hlt
    simp only [packI, hr, and_self, if_true]
    rw [ofSigned_toSigned _ _ hw hlt, leBytes_leVal bs h]

theorem unpackI_packI (w : Nat) (hw : 0 < w) (v : Int) (bs : List Nat) (h : packI w v = .ok bs) :
    unpackI w bs = .ok v ∧ bs.length = w ∧ Bytes bs := by
  unfold packI at h
  split at h
  · rename_i hr
    simp only [Except.ok.injEq] at h
    subst h
    refine ⟨?_, leBytes_length _ _, leBytes_bytes _ _⟩
    simp only [unpackI, leBytes_length, Nat.lt_irrefl, if_false]
    rw [take_leBytes, leVal_leBytes, pow_256]
    have h1 := ofSigned_lt w v hw hr.1 hr.2
    rw [Nat.mod_eq_of_lt h1, toSigned_ofSigned w v hw hr.1 hr.2]
  · cases h

end Ubx

import UbxModel.Proofs.FieldsRoundtrip
namespace Ubx
open Spec

theorem dropWhile_zeros (k : Nat) (l : List Nat) :
    (List.replicate k 0 ++ l).dropWhile (· == 0) = l.dropWhile (· == 0) := by
  induction k with
  | zero => simp
  | succ k ih => simp [List.replicate_succ, List.dropWhile_cons, ih]

theorem stripNuls_append_zeros (s : List Nat) (k : Nat) : stripNuls (s ++ List.replicate k 0) = stripNuls s := by
  simp [stripNuls, List.reverse_append, dropWhile_zeros]

theorem validUtf8_cons (b0 : Nat) (rest : List Nat) : validUtf8 (b0 :: rest) =
    (if b0 < 0x80 then validUtf8 rest
    else if 0xC2 ≤ b0 && b0 ≤ 0xDF then
      match rest with
      | b1 :: r => isCont b1 && validUtf8 r
      | _ => false
    else if 0xE0 ≤ b0 && b0 ≤ 0xEF then
      match rest with
      | b1 :: b2 :: r =>
          (if b0 = 0xE0 then 0xA0 ≤ b1 && b1 ≤ 0xBF else if b0 = 0xED then 0x80 ≤ b1 && b1 ≤ 0x9F else isCont b1)
            && isCont b2 && validUtf8 r
      | _ => false
    else if 0xF0 ≤ b0 && b0 ≤ 0xF4 then
      match rest with
      | b1 :: b2 :: b3 :: r =>
          (if b0 = 0xF0 then 0x90 ≤ b1 && b1 ≤ 0xBF else if b0 = 0xF4 then 0x80 ≤ b1 && b1 ≤ 0x8F else isCont b1)
            && isCont b2 && isCont b3 && validUtf8 r
      | _ => false
    else false) := by
  conv => lhs; unfold validUtf8
  rfl

theorem validUtf8_append (a b : List Nat) (ha : validUtf8 a = true) (hb : validUtf8 b = true) :
    validUtf8 (a ++ b) = true := by
  fun_induction validUtf8 a with
  | case1 => simpa using hb
  | case2 b0 rest h0 ih => rw [List.cons_append, validUtf8_cons]; simp only [h0, if_true]; exact ih ha
  | case3 b0 h0 h1 b1 r ih =>
    simp only [Bool.and_eq_true] at ha
    rw [List.cons_append, List.cons_append, validUtf8_cons]; simp only [h0, h1, if_false, if_true, Bool.and_eq_true]
    exact ⟨ha.1, ih ha.2⟩
  | case4 => cases ha
  | case5 b0 h0 h1 h2 b1 b2 r ih =>
    simp only [Bool.and_eq_true] at ha
    rw [List.cons_append, List.cons_append, List.cons_append, validUtf8_cons]
    simp only [h0, h1, h2, if_false, if_true, Bool.false_eq_true, Bool.and_eq_true]
    exact ⟨⟨ha.1.1, ha.1.2⟩, ih ha.2⟩
  | case6 => cases ha
  | case7 b0 h0 h1 h2 h3 b1 b2 b3 r ih =>
    simp only [Bool.and_eq_true] at ha
    rw [List.cons_append, List.cons_append, List.cons_append, List.cons_append, validUtf8_cons]
    simp only [h0, h1, h2, h3, if_false, if_true, Bool.false_eq_true, Bool.and_eq_true]
    exact ⟨⟨⟨ha.1.1.1, ha.1.1.2⟩, ha.1.2⟩, ih ha.2⟩
  | case8 => cases ha
  | case9 => cases ha
theorem validUtf8_zeros (k : Nat) : validUtf8 (List.replicate k 0) = true := by
  induction k with
  | zero => simp [validUtf8]
  | succ k ih => rw [List.replicate_succ, validUtf8_cons]; simpa using ih

/-- a value in the form decoding produces: padding holds 0, text has no trailing NUL (and, being a `str`, its encoding
    is well-formed UTF-8) -/
def Kind.canon : Kind → Val → Prop
  | .pad _, v => v = .int 0
  | .text _, .str s => stripNuls s = s ∧ validUtf8 s = true
  | _, _ => True

theorem take_append_exact {α} (a b : List α) (n : Nat) (h : a.length = n) : (a ++ b).take n = a := by
  subst h; simp

/-- one item: what `pack` produced, `unpack` reads back — whatever follows in the buffer -/
theorem unpack_pack_item (k : Kind) (v : Val) (bs rest : List Nat) (h : k.pack v = .ok bs) (hc : k.canon v)
    (hw : ∀ w, k = Kind.sint w → 0 < w) :
    k.unpack (bs ++ rest) = .ok (v, k.width) ∧ bs.length = k.width := by
  cases k with
  | uint w =>
    cases v with
    | str s => simp [Kind.pack] at h
    | int x =>
      simp only [Kind.pack] at h
      obtain ⟨r1, r2, -⟩ := unpackU_packU w x bs h
      refine ⟨?_, r2⟩
      simp only [Kind.unpack, unpackU, List.length_append, r2, Kind.width] at r1 ⊢
      have : ¬ (w + rest.length < w) := by omega
      simp only [this, if_false, take_append_exact bs rest w r2, Except.map]
      simp only [Nat.lt_irrefl, if_false] at r1
      rw [show bs.take w = bs from by rw [List.take_of_length_le (by omega)]] at r1
      simp only [Except.ok.injEq] at r1
      rw [r1]
  | sint w =>
    cases v with
    | str s => simp [Kind.pack] at h
    | int x =>
      simp only [Kind.pack] at h
      obtain ⟨r1, r2, -⟩ := unpackI_packI w (hw w rfl) x bs h
      refine ⟨?_, r2⟩
      simp only [Kind.unpack, unpackI, List.length_append, r2, Kind.width] at r1 ⊢
      have : ¬ (w + rest.length < w) := by omega
      simp only [this, if_false, take_append_exact bs rest w r2, Except.map]
      simp only [Nat.lt_irrefl, if_false] at r1
      rw [show bs.take w = bs from by rw [List.take_of_length_le (by omega)]] at r1
      simp only [Except.ok.injEq] at r1
      rw [r1]
  | pad n =>
    simp only [Kind.canon] at hc
    subst hc
    simp only [Kind.pack, Except.ok.injEq] at h
    subst h
    simp [Kind.unpack, Kind.width]
  | text n =>
    cases v with
    | int x => simp [Kind.pack] at h
    | str s =>
      simp only [Kind.canon] at hc
      simp only [Kind.pack] at h
      split at h
      · cases h
      · rename_i hlen
        simp only [Except.ok.injEq] at h
        subst h
        have hl : (s ++ List.replicate (n - s.length) 0).length = n := by simp; omega
        refine ⟨?_, hl⟩
        have hnl : ¬ ((s ++ List.replicate (n - s.length) 0 ++ rest).length < n) := by simp; omega
        simp only [Kind.unpack, if_neg hnl, take_append_exact _ rest n hl, Kind.width]
        have hv : validUtf8 (s ++ List.replicate (n - s.length) 0) = true :=
          validUtf8_append _ _ hc.2 (validUtf8_zeros _)
        simp only [hv, Bool.not_true, Bool.false_eq_true, if_false, stripNuls_append_zeros, hc.1]

/-- one canonical value per item -/
def Table.Canon : Table → List Val → Prop
  | [], [] => True
  | (_, k) :: r, v :: vs => k.canon v ∧ Table.Canon r vs
  | _, _ => False

/-- **C08, second half.** Encoding canonical values and decoding the bytes returns exactly those
    values (and the untouched remainder of the buffer). -/
theorem decode_encode (t : Table) (hwf : t.wf) (vs : List Val) (bs rest : List Nat)
    (h : t.encode vs = .ok bs) (hc : t.Canon vs) :
    t.decode (bs ++ rest) = .ok (vs, rest) ∧ bs.length = t.size := by
  induction t generalizing vs bs with
  | nil =>
    cases vs with
    | nil => simp only [Table.encode, Except.ok.injEq] at h; subst h; simp [Table.decode, Table.size]
    | cons v vs' => simp [Table.Canon] at hc
  | cons x r ih =>
    obtain ⟨nm, k⟩ := x
    cases vs with
    | nil => simp [Table.Canon] at hc
    | cons v vs' =>
      obtain ⟨hck, hcr⟩ := hc
      simp only [Table.encode] at h
      split at h
      · cases h
      · rename_i b1 hp
        split at h
        · cases h
        · rename_i more hm
          simp only [Except.ok.injEq] at h
          subst h
          obtain ⟨u1, u2⟩ := unpack_pack_item k v b1 (more ++ rest) hp hck (fun w hk => hwf (nm, k) (by simp) w hk)
          obtain ⟨d1, d2⟩ := ih (fun y hy => hwf y (by simp [hy])) vs' more hm hcr
          refine ⟨?_, by simp [Table.size_cons, u2, d2]⟩
          simp only [Table.decode, List.append_assoc, u1]
          rw [← u2, List.drop_left, d1]

end Ubx

namespace Ubx
open Spec

/-- whatever an item packs to has the item's width -/
theorem pack_length (k : Kind) (v : Val) (bs : List Nat) (h : k.pack v = .ok bs) : bs.length = k.width := by
  cases k with
  | uint w =>
    cases v with
    | str s => simp [Kind.pack] at h
    | int x => exact (unpackU_packU w x bs (by simpa [Kind.pack] using h)).2.1
  | sint w =>
    cases v with
    | str s => simp [Kind.pack] at h
    | int x =>
      simp only [Kind.pack, packI] at h
      split at h
      · simp only [Except.ok.injEq] at h; subst h; exact leBytes_length _ _
      · cases h
  | pad n => simp only [Kind.pack, Except.ok.injEq] at h; subst h; simp [Kind.width]
  | text n =>
    cases v with
    | int x => simp [Kind.pack] at h
    | str s =>
      simp only [Kind.pack] at h
      split at h
      · cases h
      · simp only [Except.ok.injEq] at h; subst h; simp [Kind.width]; omega

theorem encode_length (t : Table) (vs : List Val) (bs : List Nat) (h : t.encode vs = .ok bs) : bs.length = t.size := by
  induction t generalizing vs bs with
  | nil => cases vs <;> simp [Table.encode] at h <;> subst h <;> simp [Table.size]
  | cons x r ih =>
    obtain ⟨nm, k⟩ := x
    cases vs with
    | nil => simp [Table.encode] at h
    | cons v vs' =>
      simp only [Table.encode] at h
      split at h
      · cases h
      · rename_i b1 hp
        split at h
        · cases h
        · rename_i more hm
          simp only [Except.ok.injEq] at h; subst h
          simp [Table.size_cons, pack_length k v b1 hp, ih vs' more hm]

theorem drop_len_add {α} (a b : List α) (n : Nat) : (a ++ b).drop (a.length + n) = b.drop n := by
  induction a with
  | nil => simp
  | cons x xs ih => simpa [Nat.succ_add] using ih

theorem take_len_add {α} (a b : List α) (n : Nat) : (a ++ b).take (a.length + n) = a ++ b.take n := by
  induction a with
  | nil => simp
  | cons x xs ih => simpa [Nat.succ_add] using ih

/-- **C08, read-modify-write.** After one field of a frame is changed, the re-encoded payload differs
    from the previous encoding only inside that field's byte range: everything before the field's
    offset and everything after its end is identical, and the range holds the new value's encoding. -/
theorem rmw_local (t : Table) (vs : List Val) (j : Nat) (v' : Val) (bs bs' : List Nat)
    (h : t.encode vs = .ok bs) (h' : t.encode (vs.set j v') = .ok bs') (hj : j < t.length) (hl : vs.length = t.length) :
    ∃ k piece, (t[j]?).map (·.2) = some k ∧ k.pack v' = .ok piece ∧
      bs'.take (t.offsetOf j) = bs.take (t.offsetOf j) ∧
      bs'.drop (t.offsetOf j + k.width) = bs.drop (t.offsetOf j + k.width) ∧
      (bs'.drop (t.offsetOf j)).take k.width = piece := by
  induction t generalizing vs j bs bs' with
  | nil => simp at hj
  | cons x r ih =>
    obtain ⟨nm, k⟩ := x
    cases vs with
    | nil => simp at hl
    | cons v vs' =>
      simp only [Table.encode] at h
      split at h
      · cases h
      · rename_i b1 hp
        split at h
        · cases h
        · rename_i more hm
          simp only [Except.ok.injEq] at h; subst h
          cases j with
          | zero =>
            simp only [List.set_cons_zero, Table.encode] at h'
            split at h'
            · cases h'
            · rename_i b1' hp'
              rw [hm] at h'
              simp only [Except.ok.injEq] at h'; subst h'
              have l1 := pack_length k v b1 hp
              have l1' := pack_length k v' b1' hp'
              refine ⟨k, b1', by simp, hp', by simp [Table.offsetOf_zero], ?_, ?_⟩
              · simp only [Table.offsetOf_zero, Nat.zero_add]
                rw [← l1', List.drop_left, l1', ← l1, List.drop_left]
              · simp only [Table.offsetOf_zero, List.drop_zero]
                rw [← l1']; simp
          | succ i =>
            simp only [List.set_cons_succ, Table.encode, hp] at h'
            split at h'
            · cases h'
            · rename_i more' hm'
              simp only [Except.ok.injEq] at h'; subst h'
              obtain ⟨k2, piece, e1, e2, e3, e4, e5⟩ := ih vs' i more more' hm hm' (by simpa using hj) (by simpa using hl)
              have l1 := pack_length k v b1 hp
              refine ⟨k2, piece, by simpa using e1, e2, ?_, ?_, ?_⟩
              · rw [Table.offsetOf_succ]
                simp only
                rw [← l1, take_len_add, take_len_add, e3]
              · rw [Table.offsetOf_succ]
                simp only
                rw [show k.width + Table.offsetOf r i + k2.width = b1.length + (Table.offsetOf r i + k2.width) by omega,
                  drop_len_add, drop_len_add, e4]
              · rw [Table.offsetOf_succ]
                simp only
                rw [← l1, drop_len_add, e5]

end Ubx

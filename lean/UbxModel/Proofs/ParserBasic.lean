import UbxModel.Model.ParserUbx
import UbxModel.Proofs.Checksum
namespace Ubx

/-- the generated constants, as numerals (these break when the code's constants change) -/
@[simp] theorem sync1_eq : Gen.sync1 = 0xB5 := rfl
@[simp] theorem sync2_eq : Gen.sync2 = 0x62 := rfl
theorem MAXLEN_eq : MAXLEN = 1000 := rfl

/-! ### one equation per branch of `_process_byte` -/
section StepEquations
variable (p : Parser) (d : Nat)

theorem step_init_sync (h : p.st = .init) (hd : d = 0xB5) : p.step d = { p with st := .sync } := by
  unfold Parser.step; rw [h]; simp only []; rw [if_pos hd]
theorem step_init_other (h : p.st = .init) (hd : d ≠ 0xB5) : p.step d = p := by
  unfold Parser.step; rw [h]; simp only []; rw [if_neg hd]
theorem step_sync_62 (h : p.st = .sync) (hd : d = 0x62) : p.step d = { p.reset with st := .cls } := by
  unfold Parser.step; rw [h]; simp only []; rw [if_pos hd]
theorem step_sync_b5 (h : p.st = .sync) (hd : d = 0xB5) : p.step d = p := by
  unfold Parser.step; rw [h]; simp only []
  rw [if_neg (by rw [hd]; decide), if_pos hd]
theorem step_sync_other (h : p.st = .sync) (h62 : d ≠ 0x62) (hb5 : d ≠ 0xB5) :
    p.step d = { p with st := .init } := by
  unfold Parser.step; rw [h]; simp only []; rw [if_neg h62, if_neg hb5]
theorem step_cls (h : p.st = .cls) : p.step d = { p with msgClass := d, ck := p.ck.add d, st := .id } := by
  unfold Parser.step; rw [h]
theorem step_id (h : p.st = .id) : p.step d = { p with msgId := d, ck := p.ck.add d, st := .len1 } := by
  unfold Parser.step; rw [h]
theorem step_len1 (h : p.st = .len1) : p.step d = { p with msgLen := d, ck := p.ck.add d, st := .len2 } := by
  unfold Parser.step; rw [h]
theorem step_len2_zero (h : p.st = .len2) (h0 : p.msgLen + d * 256 = 0) :
    p.step d = { p with msgLen := p.msgLen + d * 256, ck := p.ck.add d, st := .crc1 } := by
  unfold Parser.step; rw [h]; simp only []; rw [if_pos h0]
theorem step_len2_long (h : p.st = .len2) (hbig : p.msgLen + d * 256 > MAXLEN) :
    p.step d = { p with msgLen := p.msgLen + d * 256, ck := p.ck.add d, st := .init } := by
  have h0 : ¬ (p.msgLen + d * 256 = 0) := by have : MAXLEN = 1000 := rfl; omega
  unfold Parser.step; rw [h]; simp only []; rw [if_neg h0, if_pos hbig]
theorem step_len2_data (h : p.st = .len2) (h0 : p.msgLen + d * 256 ≠ 0) (hbig : ¬ p.msgLen + d * 256 > MAXLEN) :
    p.step d = { p with msgLen := p.msgLen + d * 256, ck := p.ck.add d, ofs := 0, st := .data } := by
  unfold Parser.step; rw [h]; simp only []; rw [if_neg h0, if_neg hbig]
theorem step_data_last (h : p.st = .data) (hl : p.ofs + 1 = p.msgLen) :
    p.step d = { p with msgData := p.msgData ++ [d], ck := p.ck.add d, ofs := p.ofs + 1, st := .crc1 } := by
  unfold Parser.step; rw [h]; simp only []; rw [if_pos hl]
theorem step_data_more (h : p.st = .data) (hl : p.ofs + 1 ≠ p.msgLen) :
    p.step d = { p with msgData := p.msgData ++ [d], ck := p.ck.add d, ofs := p.ofs + 1 } := by
  unfold Parser.step; rw [h]; simp only []; rw [if_neg hl]
theorem step_crc1 (h : p.st = .crc1) : p.step d = { p with cka := d, st := .crc2 } := by
  unfold Parser.step; rw [h]
theorem step_crc2_ok (h : p.st = .crc2) (hok : p.ck.a = p.cka ∧ p.ck.b = d) :
    p.step d = { p with ckb := d, st := .init, framesRx := p.framesRx + 1,
                        queue := if p.passes ⟨p.msgClass, p.msgId⟩
                                 then p.queue ++ [.data ⟨p.msgClass, p.msgId⟩ p.msgData] else p.queue } := by
  unfold Parser.step; rw [h]; simp only []; rw [if_pos hok]
theorem step_crc2_bad (h : p.st = .crc2) (hok : ¬ (p.ck.a = p.cka ∧ p.ck.b = d)) :
    p.step d = { p with ckb := d, st := .init, queue := p.queue ++ [.crcError] } := by
  unfold Parser.step; rw [h]; simp only []; rw [if_neg hok]

end StepEquations

theorem Parser.process_append (p : Parser) (xs ys : List Nat) :
    p.process (xs ++ ys) = (p.process xs).process ys := by
  simp [Parser.process, List.foldl_append]

theorem Parser.process_cons (p : Parser) (x : Nat) (xs : List Nat) :
    p.process (x :: xs) = (p.step x).process xs := rfl

theorem Parser.process_nil (p : Parser) : p.process [] = p := rfl

/-- chunking independence: feeding chunk by chunk equals feeding the concatenation -/
theorem Parser.process_chunks (p : Parser) (chunks : List (List Nat)) :
    chunks.foldl Parser.process p = p.process chunks.flatten := by
  induction chunks generalizing p with
  | nil => rfl
  | cons c cs ih => simp [List.flatten_cons, Parser.process_append, ih]

/-- in state `DATA`, feeding exactly the missing payload bytes ends in `CRC1` -/
theorem Parser.process_data (p : Parser) (bs : List Nat) (hst : p.st = .data)
    (hlen : p.ofs + bs.length = p.msgLen) (hpos : bs ≠ []) :
    p.process bs = { p with msgData := p.msgData ++ bs, ck := p.ck.addAll bs, ofs := p.msgLen, st := .crc1 } := by
  induction bs generalizing p with
  | nil => exact absurd rfl hpos
  | cons b bs ih =>
    by_cases hbs : bs = []
    · subst hbs
      simp at hlen
      simp [Parser.process_cons, Parser.process_nil, Parser.step, hst, hlen, Ck.addAll]
    · have hne : ¬ (p.ofs + 1 = p.msgLen) := by
        have : 0 < bs.length := List.length_pos_iff.mpr hbs
        simp at hlen; omega
      rw [Parser.process_cons]
      simp only [Parser.step, hst, hne, ite_false]
      rw [ih _ rfl (by simp at hlen ⊢; omega) hbs]
      simp [Ck.addAll, List.append_assoc]

def Parser.hunting (p : Parser) : Prop := p.st = .init ∨ p.st = .sync

/-- a frame-shaped byte sequence: sync, class, id, LE length, payload, two checksum bytes -/
def frameBytes (cls id : Nat) (pl : List Nat) (a b : Nat) : List Nat :=
  [0xB5, 0x62, cls, id, pl.length % 256, pl.length / 256] ++ pl ++ [a, b]

def frameCk (cls id : Nat) (pl : List Nat) : Ck :=
  fletcher (cls :: id :: (pl.length % 256) :: (pl.length / 256) :: pl)

/-- effect of a frame-shaped sequence on queue and counter -/
def Parser.deliver (p : Parser) (cls id : Nat) (pl : List Nat) (a b : Nat) : List Packet × Nat :=
  if (frameCk cls id pl).a = a ∧ (frameCk cls id pl).b = b then
    (if p.passes ⟨cls, id⟩ then p.queue ++ [.data ⟨cls, id⟩ pl] else p.queue, p.framesRx + 1)
  else (p.queue ++ [.crcError], p.framesRx)

/-- Lemma A: a frame-shaped sequence met while hunting is consumed exactly -/
theorem Parser.process_frame (p : Parser) (h : p.hunting) (cls id : Nat) (pl : List Nat) (a b : Nat)
    (hlen : pl.length ≤ MAXLEN) :
    let p' := p.process (frameBytes cls id pl a b)
    p'.st = .init ∧ p'.filter = p.filter ∧ (p'.queue, p'.framesRx) = p.deliver cls id pl a b := by
  have hl2 : pl.length % 256 + pl.length / 256 * 256 = pl.length := by omega
  have hsync : ∃ p0 : Parser, p.process [0xB5, 0x62] = { p0.reset with st := .cls } ∧
      p0.queue = p.queue ∧ p0.filter = p.filter ∧ p0.framesRx = p.framesRx := by
    rcases h with h | h
    · exact ⟨{ p with st := .sync }, by simp [Parser.process, Parser.step, h]⟩
    · exact ⟨p, by simp [Parser.process, Parser.step, h]⟩
  obtain ⟨p0, hp0, hq, hf, hr⟩ := hsync
  have hsplit : frameBytes cls id pl a b =
      [0xB5, 0x62] ++ ([cls, id, pl.length % 256, pl.length / 256] ++ (pl ++ [a, b])) := by
    simp [frameBytes]
  intro p'
  simp only [p', hsplit, Parser.process_append, hp0]
  by_cases hpl : pl = []
  · subst hpl
    simp only [Parser.process, Parser.step, Parser.reset, Parser.deliver, frameCk, fletcher, Ck.addAll,
      Parser.passes, filterPasses, List.foldl_cons, List.foldl_nil, List.length_nil, Ck.reset]
    simp [hq, hf, hr]
    split <;> simp_all
  · have hpos : 0 < pl.length := List.length_pos_iff.mpr hpl
    have hmax : ¬ (pl.length > MAXLEN) := by omega
    have hne0 : ¬ (pl.length = 0) := by omega
    have hhdr : ({ p0.reset with st := .cls } : Parser).process [cls, id, pl.length % 256, pl.length / 256] =
        { p0.reset with
            st := St.data
            msgClass := cls
            msgId := id
            msgLen := pl.length
            ofs := 0
            ck := Ck.zero.addAll [cls, id, pl.length % 256, pl.length / 256] } := by
      simp [Parser.process, Parser.step, Parser.reset, hl2, hmax, hne0, Ck.addAll, Ck.reset]
    rw [hhdr, Parser.process_data _ pl rfl (by simp) hpl]
    simp only [Parser.process, Parser.step, Parser.reset, Parser.deliver, frameCk, fletcher, Ck.addAll,
      Parser.passes, filterPasses, List.foldl_cons, List.foldl_nil, Ck.reset]
    simp [hq, hf, hr]
    split <;> simp_all

end Ubx

import UbxModel.Proofs.ServerProvenance
namespace Ubx

theorem pollWaitAck_sent (env : Env) (reg : Registry) (req : Cid) (deadline : Nat) (p : Parser) (lg : Log) :
    (pollWaitAck env reg req deadline p lg).2.2.sent = lg.sent := by
  fun_induction pollWaitAck env reg req deadline p lg with
  | case1 p lg f p' lg' hw hck => have := wait_sent env reg deadline p lg; rw [hw] at this; exact this
  | case2 p lg f p' lg' hw hck ih => have := wait_sent env reg deadline p lg; rw [hw] at this; rw [ih]; exact this
  | case3 p lg p' lg' hw => have := wait_sent env reg deadline p lg; rw [hw] at this; exact this

theorem pollAttempt_sent (env : Env) (reg : Registry) (req : Cid) (delay deadline : Nat) (p : Parser) (lg : Log) :
    (pollAttempt env reg req delay deadline p lg).2.2.sent = lg.sent := by
  fun_induction pollAttempt env reg req delay deadline p lg with
  | case1 p lg f p' lg' hw hcid hcfg p'' lg'' hack =>
    have h1 := wait_sent env reg deadline p lg; rw [hw] at h1
    have h2 := pollWaitAck_sent env reg req (lg'.now + delay) p' lg'; rw [hack] at h2
    simp only at h1 h2 ⊢; rw [h2, h1]
  | case2 p lg f p' lg' hw hcid hcfg p'' lg'' hack =>
    have h1 := wait_sent env reg deadline p lg; rw [hw] at h1
    have h2 := pollWaitAck_sent env reg req (lg'.now + delay) p' lg'; rw [hack] at h2
    simp only at h1 h2 ⊢; rw [h2, h1]
  | case3 p lg f p' lg' hw hcid hcfg => have h1 := wait_sent env reg deadline p lg; rw [hw] at h1; exact h1
  | case4 p lg f p' lg' hw hcid ih => have h1 := wait_sent env reg deadline p lg; rw [hw] at h1; rw [ih]; exact h1
  | case5 p lg p' lg' hw => have h1 := wait_sent env reg deadline p lg; rw [hw] at h1; exact h1

/-- whatever the receiver does, `set()` transmits the same bytes at most `n` times -/
theorem setLoop_sent (env : Env) (reg : Registry) (delay : Nat) (req : Req) (n : Nat) (p : Parser) (lg : Log) :
    ∃ k, k ≤ n ∧ (setLoop env reg delay req n p lg).2.2.sent = lg.sent ++ List.replicate k req.wire := by
  induction n generalizing p lg with
  | zero => exact ⟨0, Nat.le_refl _, by simp [setLoop]⟩
  | succ n ih =>
    simp only [setLoop]
    have f3 : (flushSend env lg req.wire).2.sent = lg.sent ++ [req.wire] := rfl
    have next : ∀ (p' : Parser) (lgx : Log), lgx.sent = lg.sent ++ [req.wire] →
        ∃ k, k ≤ n + 1 ∧ (setLoop env reg delay req n p' lgx).2.2.sent = lg.sent ++ List.replicate k req.wire := by
      intro p' lgx hs
      obtain ⟨k, hk, e⟩ := ih p' lgx
      exact ⟨k + 1, by omega, by rw [e, hs, List.replicate_succ]; simp⟩
    cases (flushSend env lg req.wire).1
    · simp only [Bool.false_eq_true, if_false]; exact next p _ f3
    · simp only [if_true]
      have hws := wait_sent env reg ((flushSend env lg req.wire).2.now + delay) p.emptyQueue.restart (flushSend env lg req.wire).2
      generalize wait env reg ((flushSend env lg req.wire).2.now + delay) p.emptyQueue.restart (flushSend env lg req.wire).2 = res at hws
      obtain ⟨fo, p2, lg2⟩ := res
      simp only at hws
      cases fo with
      | none => exact next p2 (recover lg2) (by show lg2.sent = _; rw [hws, f3])
      | some f =>
        simp only
        split
        · exact next p2 lg2 (by rw [hws, f3])
        · exact ⟨1, by omega, by rw [hws, f3]; rfl⟩

theorem mgaLoop_sent (env : Env) (reg : Registry) (delay : Nat) (req : Req) (n : Nat) (p : Parser) (lg : Log) :
    ∃ k, k ≤ n ∧ (mgaLoop env reg delay req n p lg).2.2.sent = lg.sent ++ List.replicate k req.wire := by
  induction n generalizing p lg with
  | zero => exact ⟨0, Nat.le_refl _, by simp [mgaLoop]⟩
  | succ n ih =>
    simp only [mgaLoop]
    have f3 : (flushSend env lg req.wire).2.sent = lg.sent ++ [req.wire] := rfl
    have next : ∀ (p' : Parser) (lgx : Log), lgx.sent = lg.sent ++ [req.wire] →
        ∃ k, k ≤ n + 1 ∧ (mgaLoop env reg delay req n p' lgx).2.2.sent = lg.sent ++ List.replicate k req.wire := by
      intro p' lgx hs
      obtain ⟨k, hk, e⟩ := ih p' lgx
      exact ⟨k + 1, by omega, by rw [e, hs, List.replicate_succ]; simp⟩
    cases (flushSend env lg req.wire).1
    · simp only [Bool.false_eq_true, if_false]; exact next p _ f3
    · simp only [if_true]
      have hws := wait_sent env reg ((flushSend env lg req.wire).2.now + delay) p.emptyQueue.restart (flushSend env lg req.wire).2
      generalize wait env reg ((flushSend env lg req.wire).2.now + delay) p.emptyQueue.restart (flushSend env lg req.wire).2 = res at hws
      obtain ⟨fo, p2, lg2⟩ := res
      simp only at hws
      cases fo with
      | none => exact next p2 (recover lg2) (by show lg2.sent = _; rw [hws, f3])
      | some f =>
        simp only
        split
        · exact ⟨1, by omega, by rw [hws, f3]; rfl⟩
        · exact next p2 lg2 (by rw [hws, f3])

theorem pollLoop_sent (env : Env) (reg : Registry) (delay : Nat) (req : Req) (n : Nat) (p : Parser) (lg : Log) :
    ∃ k, k ≤ n ∧ (pollLoop env reg delay req n p lg).2.2.sent = lg.sent ++ List.replicate k req.wire := by
  induction n generalizing p lg with
  | zero => exact ⟨0, Nat.le_refl _, by simp [pollLoop]⟩
  | succ n ih =>
    simp only [pollLoop]
    have f3 : (flushSend env lg req.wire).2.sent = lg.sent ++ [req.wire] := rfl
    have next : ∀ (p' : Parser) (lgx : Log), lgx.sent = lg.sent ++ [req.wire] →
        ∃ k, k ≤ n + 1 ∧ (pollLoop env reg delay req n p' lgx).2.2.sent = lg.sent ++ List.replicate k req.wire := by
      intro p' lgx hs
      obtain ⟨k, hk, e⟩ := ih p' lgx
      exact ⟨k + 1, by omega, by rw [e, hs, List.replicate_succ]; simp⟩
    cases (flushSend env lg req.wire).1
    · simp only [Bool.false_eq_true, if_false]; exact next p _ f3
    · simp only [if_true]
      have hws := pollAttempt_sent env reg req.cid delay ((flushSend env lg req.wire).2.now + delay) p.emptyQueue.restart
        (flushSend env lg req.wire).2
      generalize pollAttempt env reg req.cid delay ((flushSend env lg req.wire).2.now + delay) p.emptyQueue.restart
        (flushSend env lg req.wire).2 = res at hws
      obtain ⟨fo, p2, lg2⟩ := res
      simp only at hws
      cases fo with
      | none => exact next p2 (recover lg2) (by show lg2.sent = _; rw [hws, f3])
      | some f => exact ⟨1, by omega, by simp only; rw [hws, f3]; rfl⟩

end Ubx

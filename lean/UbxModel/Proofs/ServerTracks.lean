import UbxModel.Proofs.ServerProvenance
import UbxModel.Proofs.ParserPrefix
import UbxModel.Proofs.ServerSent
namespace Ubx

theorem rxBytes_snoc (env : Env) (a n : Nat) : rxBytes env a (n + 1) = rxBytes env a n ++ (env.rx (a + n)).2 := by
  induction n generalizing a with
  | zero => simp [rxBytes]
  | succ k ih =>
    rw [rxBytes, ih (a + 1), rxBytes, List.append_assoc]
    congr 2
    rw [show a + 1 + k = a + (k + 1) by omega]

/-- `drain` hands back a suffix of the queue -/
theorem drain_suffix (reg : Registry) (q : List Packet) : (drain reg q).2 <:+ q := by
  induction q with
  | nil => simp [drain]
  | cons x rest ih =>
    cases x with
    | crcError => simp only [drain]; exact List.IsSuffix.trans ih (List.suffix_cons _ _)
    | data cid pl =>
      simp only [drain]
      cases reg.build cid pl with
      | none => exact List.IsSuffix.trans ih (List.suffix_cons _ _)
      | some f => exact List.suffix_cons _ _

/-- the parser the request loop holds is the parser `p0` fed every byte received since call `j0`,
    with a prefix of its queue already taken away -/
def Tracks (env : Env) (p0 : Parser) (j0 : Nat) (p : Parser) (lg : Log) : Prop :=
  j0 ≤ lg.nRx ∧ ∃ q, q <:+ (p0.process (rxBytes env j0 (lg.nRx - j0))).queue ∧
    p = { p0.process (rxBytes env j0 (lg.nRx - j0)) with queue := q }

theorem Tracks.start (env : Env) (p0 : Parser) (lg : Log) : Tracks env p0 lg.nRx p0 lg :=
  ⟨Nat.le_refl _, p0.queue, by simp [rxBytes, Parser.process], by simp [rxBytes, Parser.process]⟩

/-- **`_wait()` keeps tracking, and whatever it returns was queued by the tracked parser** -/
theorem wait_tracks (env : Env) (reg : Registry) (deadline : Nat) (p0 : Parser) (j0 : Nat) (p : Parser) (lg : Log)
    (h : Tracks env p0 j0 p lg) :
    let r := wait env reg deadline p lg
    Tracks env p0 j0 r.2.1 r.2.2 ∧
    ∀ f, r.1 = some f →
      Packet.data f.cid f.payload ∈ (p0.process (rxBytes env j0 (r.2.2.nRx - j0))).queue ∧
      reg.build f.cid f.payload = some f := by
  fun_induction wait env reg deadline p lg with
  | case1 p lg hlt r lg' p1 f x hd =>
    obtain ⟨hj, q, hq, hp⟩ := h
    have hp1 : p1 = p.process r.2 := process_if_empty p r.2
    have hn : lg'.nRx - j0 = (lg.nRx - j0) + 1 := by simp only [lg']; omega
    have hidx : j0 + (lg.nRx - j0) = lg.nRx := by omega
    obtain ⟨app, a1, a2⟩ := process_with_queue (p0.process (rxBytes env j0 (lg.nRx - j0))) q r.2
    have hU : p0.process (rxBytes env j0 (lg'.nRx - j0)) = (p0.process (rxBytes env j0 (lg.nRx - j0))).process r.2 := by
      rw [hn, rxBytes_snoc, Parser.process_append, hidx]
    have hp1' : p1 = { (p0.process (rxBytes env j0 (lg.nRx - j0))).process r.2 with queue := q ++ app } := by
      rw [hp1, hp, a2]
    have hsuf : q ++ app <:+ ((p0.process (rxBytes env j0 (lg.nRx - j0))).process r.2).queue := by
      rw [a1]; obtain ⟨t, ht⟩ := hq; exact ⟨t, by rw [← ht, List.append_assoc]⟩
    have hdq : drain reg (q ++ app) = (some f, x) := by
      have : p1.queue = q ++ app := by rw [hp1']
      rw [← this]; exact hd
    have hxs : x <:+ q ++ app := by have := drain_suffix reg (q ++ app); rw [hdq] at this; exact this
    refine ⟨⟨by simp only [lg']; omega, x, ?_, ?_⟩, fun f' hf => ?_⟩
    · rw [hU]; exact List.IsSuffix.trans hxs hsuf
    · show ({ p1 with queue := x } : Parser) = _
      rw [hU, hp1']
    · simp only [Option.some.injEq] at hf
      subst hf
      obtain ⟨m1, m2⟩ := (drain_spec reg (q ++ app)).1 f x hdq
      refine ⟨?_, m2⟩
      show _ ∈ (p0.process (rxBytes env j0 (lg'.nRx - j0))).queue
      rw [hU]
      exact (List.IsSuffix.subset hsuf) m1
  | case2 p lg hlt r lg' p1 x hd ih =>
    obtain ⟨hj, q, hq, hp⟩ := h
    have hp1 : p1 = p.process r.2 := process_if_empty p r.2
    have hn : lg'.nRx - j0 = (lg.nRx - j0) + 1 := by simp only [lg']; omega
    have hidx : j0 + (lg.nRx - j0) = lg.nRx := by omega
    obtain ⟨app, a1, a2⟩ := process_with_queue (p0.process (rxBytes env j0 (lg.nRx - j0))) q r.2
    have hU : p0.process (rxBytes env j0 (lg'.nRx - j0)) = (p0.process (rxBytes env j0 (lg.nRx - j0))).process r.2 := by
      rw [hn, rxBytes_snoc, Parser.process_append, hidx]
    have hp1' : p1 = { (p0.process (rxBytes env j0 (lg.nRx - j0))).process r.2 with queue := q ++ app } := by
      rw [hp1, hp, a2]
    have hxe : x = [] := (drain_spec reg p1.queue).2 x hd
    apply ih
    refine ⟨by simp only [lg']; omega, x, by rw [hxe]; exact List.nil_suffix, ?_⟩
    rw [hU, hp1']
  | case3 p lg hnl => exact ⟨h, fun f hf => by simp at hf⟩

end Ubx

namespace Ubx

theorem rxBytes_add (env : Env) (a n k : Nat) : rxBytes env a (n + k) = rxBytes env a n ++ rxBytes env (a + n) k := by
  induction k with
  | zero => simp [rxBytes]
  | succ k ih =>
    rw [← Nat.add_assoc, rxBytes_snoc, ih, rxBytes_snoc, List.append_assoc, Nat.add_assoc]

/-- the tracked queue only grows with more input -/
theorem tracked_mono (env : Env) (p0 : Parser) (j0 n m : Nat) (h : n ≤ m) (x : Packet)
    (hx : x ∈ (p0.process (rxBytes env j0 n)).queue) : x ∈ (p0.process (rxBytes env j0 m)).queue := by
  obtain ⟨k, rfl⟩ := Nat.exists_eq_add_of_le h
  rw [rxBytes_add]
  obtain ⟨app, ha⟩ := queue_prefix p0 (rxBytes env j0 n) (rxBytes env (j0 + n) k)
  rw [ha]; exact List.mem_append_left _ hx

theorem wait_nrx_mono (env : Env) (reg : Registry) (deadline : Nat) (p : Parser) (lg : Log) :
    lg.nRx ≤ (wait env reg deadline p lg).2.2.nRx := (wait_provenance env reg deadline p lg).2.1

theorem pollWaitAck_nrx_mono (env : Env) (reg : Registry) (req : Cid) (deadline : Nat) (p : Parser) (lg : Log) :
    lg.nRx ≤ (pollWaitAck env reg req deadline p lg).2.2.nRx := by
  fun_induction pollWaitAck env reg req deadline p lg with
  | case1 p lg f p' lg' hw hck => have := wait_nrx_mono env reg deadline p lg; rw [hw] at this; exact this
  | case2 p lg f p' lg' hw hck ih =>
    have := wait_nrx_mono env reg deadline p lg; rw [hw] at this
    exact Nat.le_trans this ih
  | case3 p lg p' lg' hw => have := wait_nrx_mono env reg deadline p lg; rw [hw] at this; exact this

theorem Tracks.nRx_le {env p0 j0 p lg} (h : Tracks env p0 j0 p lg) : j0 ≤ lg.nRx := h.1

/-- 'wait-ack': tracking is kept; success means an ACK-ACK naming the request was queued by the tracked parser -/
theorem pollWaitAck_tracks (env : Env) (reg : Registry) (req : Cid) (deadline : Nat) (p0 : Parser) (j0 : Nat)
    (p : Parser) (lg : Log) (h : Tracks env p0 j0 p lg) :
    let r := pollWaitAck env reg req deadline p lg
    Tracks env p0 j0 r.2.1 r.2.2 ∧
    (r.1 = true → ∃ a, checkAckNak req a = .ack ∧
      Packet.data a.cid a.payload ∈ (p0.process (rxBytes env j0 (r.2.2.nRx - j0))).queue) := by
  fun_induction pollWaitAck env reg req deadline p lg with
  | case1 p lg f p' lg' hw hck =>
    have := wait_tracks env reg deadline p0 j0 p lg h
    rw [hw] at this
    exact ⟨this.1, fun _ => ⟨f, hck, (this.2 f rfl).1⟩⟩
  | case2 p lg f p' lg' hw hck ih =>
    have := wait_tracks env reg deadline p0 j0 p lg h
    rw [hw] at this
    exact ih this.1
  | case3 p lg p' lg' hw =>
    have := wait_tracks env reg deadline p0 j0 p lg h
    rw [hw] at this
    exact ⟨this.1, fun hf => by simp at hf⟩

/-- one attempt of `poll()`: a returned frame has the request's class/id, was built by the registered
    class from a data packet the tracked parser queued, and — for configuration-class requests — an
    ACK-ACK naming the request was queued by it as well -/
theorem pollAttempt_tracks (env : Env) (reg : Registry) (req : Cid) (delay deadline : Nat) (p0 : Parser) (j0 : Nat)
    (p : Parser) (lg : Log) (h : Tracks env p0 j0 p lg) :
    let r := pollAttempt env reg req delay deadline p lg
    Tracks env p0 j0 r.2.1 r.2.2 ∧
    ∀ f, r.1 = some f →
      f.cid = req ∧ reg.build f.cid f.payload = some f ∧
      Packet.data f.cid f.payload ∈ (p0.process (rxBytes env j0 (r.2.2.nRx - j0))).queue ∧
      (req.cls = CLASS_CFG → ∃ a, checkAckNak req a = .ack ∧
        Packet.data a.cid a.payload ∈ (p0.process (rxBytes env j0 (r.2.2.nRx - j0))).queue) := by
  fun_induction pollAttempt env reg req delay deadline p lg with
  | case1 p lg f p' lg' hw hcid hcfg p'' lg'' hack =>
    have hwt := wait_tracks env reg deadline p0 j0 p lg h
    rw [hw] at hwt
    obtain ⟨t1, t2⟩ := hwt
    have hat := pollWaitAck_tracks env reg req (lg'.now + delay) p0 j0 p' lg' t1
    rw [hack] at hat
    obtain ⟨u1, u2⟩ := hat
    refine ⟨u1, fun f' hf => ?_⟩
    simp only [Option.some.injEq] at hf; subst hf
    obtain ⟨m1, m2⟩ := t2 f rfl
    have hle : lg'.nRx - j0 ≤ lg''.nRx - j0 := by
      have := pollWaitAck_nrx_mono env reg req (lg'.now + delay) p' lg'
      rw [hack] at this
      simp only at this
      omega
    exact ⟨hcid, m2, tracked_mono env p0 j0 _ _ hle _ m1, fun _ => u2 rfl⟩
  | case2 p lg f p' lg' hw hcid hcfg p'' lg'' hack =>
    have hwt := wait_tracks env reg deadline p0 j0 p lg h
    rw [hw] at hwt
    have hat := pollWaitAck_tracks env reg req (lg'.now + delay) p0 j0 p' lg' hwt.1
    rw [hack] at hat
    exact ⟨hat.1, fun f' hf => by simp at hf⟩
  | case3 p lg f p' lg' hw hcid hcfg =>
    have hwt := wait_tracks env reg deadline p0 j0 p lg h
    rw [hw] at hwt
    refine ⟨hwt.1, fun f' hf => ?_⟩
    simp only [Option.some.injEq] at hf; subst hf
    obtain ⟨m1, m2⟩ := hwt.2 f rfl
    exact ⟨hcid, m2, m1, fun hc => absurd hc hcfg⟩
  | case4 p lg f p' lg' hw hcid ih =>
    have hwt := wait_tracks env reg deadline p0 j0 p lg h
    rw [hw] at hwt
    exact ih hwt.1
  | case5 p lg p' lg' hw =>
    have hwt := wait_tracks env reg deadline p0 j0 p lg h
    rw [hw] at hwt
    exact ⟨hwt.1, fun f hf => by simp at hf⟩

end Ubx

namespace Ubx

/-- what `poll()` guarantees about a returned frame, in terms of a new parser with the request's
    filter fed the bytes received after a transmission -/
def PollFresh (env : Env) (F : List Cid) (req : Cid) (f : RFrame) (lgEnd : Log) : Prop :=
  ∃ j0 m, j0 + m = lgEnd.nRx ∧
    Packet.data f.cid f.payload ∈ ((Parser.fresh (some F)).process (rxBytes env j0 m)).queue ∧
    (req.cls = CLASS_CFG → ∃ a, checkAckNak req a = .ack ∧
      Packet.data a.cid a.payload ∈ ((Parser.fresh (some F)).process (rxBytes env j0 m)).queue)

theorem pollLoop_result (env : Env) (reg : Registry) (delay : Nat) (req : Req) (F : List Cid)
    (n : Nat) (p : Parser) (lg : Log) (hF : p.filter = some F) :
    let r := pollLoop env reg delay req n p lg
    ∀ f, r.1 = some f →
      f.cid = req.cid ∧ reg.build f.cid f.payload = some f ∧ PollFresh env F req.cid f r.2.2 ∧
      lg.sent.length < r.2.2.sent.length := by
  induction n generalizing p lg with
  | zero => intro r f hf; simp [r, pollLoop] at hf
  | succ n ih =>
    simp only [pollLoop]
    have f3 : (flushSend env lg req.wire).2.sent = lg.sent ++ [req.wire] := rfl
    have hsent : lg.sent.length < (flushSend env lg req.wire).2.sent.length := by rw [f3]; simp
    cases hok : (flushSend env lg req.wire).1
    · simp only [Bool.false_eq_true, if_false]
      intro f hf
      obtain ⟨a, b, c, d⟩ := ih p (flushSend env lg req.wire).2 hF f hf
      exact ⟨a, b, c, by omega⟩
    · simp only [if_true]
      have ht := pollAttempt_tracks env reg req.cid delay ((flushSend env lg req.wire).2.now + delay)
        p.emptyQueue.restart (flushSend env lg req.wire).2.nRx p.emptyQueue.restart (flushSend env lg req.wire).2
        (Tracks.start env _ _)
      have hs := pollAttempt_sent env reg req.cid delay ((flushSend env lg req.wire).2.now + delay)
        p.emptyQueue.restart (flushSend env lg req.wire).2
      generalize pollAttempt env reg req.cid delay ((flushSend env lg req.wire).2.now + delay)
        p.emptyQueue.restart (flushSend env lg req.wire).2 = res at ht hs
      obtain ⟨fo, p2, lg2⟩ := res
      obtain ⟨t1, t2⟩ := ht
      simp only at t1 t2 hs
      have hfil : p2.filter = some F := by
        obtain ⟨-, q, -, hp⟩ := t1
        rw [hp]; show (Parser.process _ _).filter = _
        rw [process_filter]; exact hF
      cases fo with
      | none =>
        simp only
        intro f hf
        obtain ⟨a, b, c, d⟩ := ih p2 (recover lg2) hfil f hf
        have : (recover lg2).sent = lg2.sent := rfl
        rw [this, hs] at d
        exact ⟨a, b, c, by omega⟩
      | some f0 =>
        simp only
        intro f hf
        simp only [Option.some.injEq] at hf; subst hf
        obtain ⟨c1, c2, c3, c4⟩ := t2 f0 rfl
        have hnr : (flushSend env lg req.wire).2.nRx = lg.nRx := rfl
        have hj := t1.nRx_le
        -- restart + empty_queue: as a new parser with the same filter
        have hfresh : ∀ bs x, x ∈ (p.emptyQueue.restart.process bs).queue → x ∈ ((Parser.fresh (some F)).process bs).queue := by
          intro bs x hx
          have := (restart_equiv p.emptyQueue bs).1
          rw [this] at hx
          have e : p.emptyQueue.filter = some F := hF
          rw [e] at hx
          simpa [Parser.emptyQueue] using hx
        refine ⟨c1, c2, ⟨(flushSend env lg req.wire).2.nRx, lg2.nRx - (flushSend env lg req.wire).2.nRx, by omega,
          hfresh _ _ c3, fun hc => ?_⟩, by rw [hs]; exact hsent⟩
        obtain ⟨a, ha1, ha2⟩ := c4 hc
        exact ⟨a, ha1, hfresh _ _ ha2⟩

theorem mgaLoop_result (env : Env) (reg : Registry) (delay : Nat) (req : Req) (F : List Cid)
    (n : Nat) (p : Parser) (lg : Log) (hF : p.filter = some F) :
    let r := mgaLoop env reg delay req n p lg
    ∀ f, r.1 = some f →
      checkMga f = true ∧ FromFresh env F f r.2.2 ∧ reg.build f.cid f.payload = some f ∧
      lg.sent.length < r.2.2.sent.length := by
  induction n generalizing p lg with
  | zero => intro r f hf; simp [r, mgaLoop] at hf
  | succ n ih =>
    simp only [mgaLoop]
    have f3 : (flushSend env lg req.wire).2.sent = lg.sent ++ [req.wire] := rfl
    have hsent : lg.sent.length < (flushSend env lg req.wire).2.sent.length := by rw [f3]; simp
    cases hok : (flushSend env lg req.wire).1
    · simp only [Bool.false_eq_true, if_false]
      intro f hf
      obtain ⟨a, b, c, d⟩ := ih p (flushSend env lg req.wire).2 hF f hf
      exact ⟨a, b, c, by omega⟩
    · simp only [if_true]
      obtain ⟨w1, w2⟩ := attempt_fresh env reg ((flushSend env lg req.wire).2.now + delay) p (flushSend env lg req.wire).2 F hF
      have hws := wait_sent env reg ((flushSend env lg req.wire).2.now + delay) p.emptyQueue.restart (flushSend env lg req.wire).2
      generalize hres : wait env reg ((flushSend env lg req.wire).2.now + delay) p.emptyQueue.restart
        (flushSend env lg req.wire).2 = res at w1 w2 hws
      obtain ⟨fo, p2, lg2⟩ := res
      simp only at w1 w2 hws
      cases fo with
      | none =>
        simp only
        intro f hf
        obtain ⟨a, b, c, d⟩ := ih p2 (recover lg2) w1 f hf
        have : (recover lg2).sent = lg2.sent := rfl
        rw [this, hws] at d
        exact ⟨a, b, c, by omega⟩
      | some f0 =>
        simp only
        split
        · rename_i hck
          intro f hf
          simp only [Option.some.injEq] at hf; subst hf
          obtain ⟨b, c⟩ := w2 f0 rfl
          exact ⟨hck, b, c, by rw [hws]; exact hsent⟩
        · intro f hf
          obtain ⟨a, b, c, d⟩ := ih p2 lg2 w1 f hf
          rw [hws] at d
          exact ⟨a, b, c, by omega⟩

end Ubx

import UbxModel.Proofs.ParserBasic
/-! The filter and the queue never influence what the parser recognises: every step factors into
    "which frame, if any, is completed by this byte" — a function of the filter-free, queue-free core
    of the state — and "is it queued" — a function of the filter in force at that very step. -/
namespace Ubx

/-- what this byte completes: nothing, a frame-shaped sequence with a failing checksum, or a valid frame -/
def stepEvent (p : Parser) (d : Nat) : Option (Option (Cid × List Nat)) :=
  if p.st = .crc2 then
    (if p.ck.a = p.cka ∧ p.ck.b = d then some (some (⟨p.msgClass, p.msgId⟩, p.msgData)) else some none)
  else none

/-- what is queued for it under filter `f` -/
def evQueue (f : Option (List Cid)) : Option (Option (Cid × List Nat)) → List Packet
  | none => []
  | some none => [Packet.crcError]
  | some (some (cid, pl)) => if filterPasses f cid then [Packet.data cid pl] else []

/-- the state without queue and filter -/
def core (p : Parser) : Parser := { p with queue := [], filter := none }

theorem stepEvent_core (p : Parser) (d : Nat) : stepEvent (core p) d = stepEvent p d := rfl

/-- a step appends exactly what the completed frame and the *current* filter prescribe -/
theorem step_queue_factor (p : Parser) (d : Nat) : (p.step d).queue = p.queue ++ evQueue p.filter (stepEvent p d) := by
  unfold Parser.step stepEvent
  cases hst : p.st <;> simp only [] <;> try (simp [evQueue, Parser.reset]; done)
  all_goals (repeat' split) <;> simp_all [evQueue, Parser.reset, Parser.passes]

/-- the core of the next state depends on the core of the current state and the byte only -/
theorem core_step (p : Parser) (d : Nat) : core (p.step d) = core ((core p).step d) := by
  unfold Parser.step core
  cases hst : p.st <;> simp only [] <;> (repeat' split) <;> simp_all [Parser.reset]

theorem core_setFilters (p : Parser) (F : List Cid) : core (p.setFilters F) = core p := rfl
theorem core_setFilter (p : Parser) (c : Cid) : core (p.setFilter c) = core p := rfl
theorem core_emptyQueue (p : Parser) : core p.emptyQueue = core p := rfl
theorem core_packet (p : Parser) : core p.packet.2 = core p := by
  unfold Parser.packet; split <;> rfl

theorem core_process (p : Parser) (bs : List Nat) : core (p.process bs) = core ((core p).process bs) := by
  induction bs generalizing p with
  | nil => rfl
  | cons d ds ih =>
    show core ((p.step d).process ds) = core (((core p).step d).process ds)
    rw [ih (p.step d), ih ((core p).step d), core_step p d]

end Ubx

import UbxModel.Spec.Scan
import UbxModel.Proofs.ParserPrefix
import UbxModel.Proofs.Scan
import UbxModel.Proofs.Checksum
/-! **Refinement.** The byte-wise state machine computes exactly what the whole-stream reference
    scanner `Spec.scan` prescribes — for every byte string, not only for streams of the C02 grammar. -/
namespace Ubx
open Spec

/-- the packets the parser has to queue for the scanner's events under filter `f` -/
def evPackets (f : Option (List Cid)) : List Ev → List Packet
  | [] => []
  | .frame c i pl :: r => (if filterPasses f ⟨c, i⟩ then [Packet.data ⟨c, i⟩ pl] else []) ++ evPackets f r
  | .bad :: r => Packet.crcError :: evPackets f r

def evGood : List Ev → Nat
  | [] => 0
  | .frame _ _ _ :: r => evGood r + 1
  | .bad :: r => evGood r

/-- if a longer input leaves queue and counter untouched, so does every prefix of it -/
theorem partial_no_events (p : Parser) (t u : List Nat)
    (h : (p.process (t ++ u)).queue = p.queue ∧ (p.process (t ++ u)).framesRx = p.framesRx) :
    (p.process t).queue = p.queue ∧ (p.process t).framesRx = p.framesRx := by
  obtain ⟨app0, h0⟩ := process_appends p t
  obtain ⟨app1, h1⟩ := process_appends (p.process t) u
  rw [← Parser.process_append, h.1, h0, List.append_assoc] at h1
  have : app0 ++ app1 = [] := by
    have := congrArg List.length h1; simp only [List.length_append] at this
    exact List.length_eq_zero_iff.mp (by simp only [List.length_append]; omega)
  have ha0 : app0 = [] := (List.append_eq_nil_iff.mp this).1
  refine ⟨by rw [h0, ha0]; simp, ?_⟩
  have m1 := process_framesRx_mono p t
  have m2 := process_framesRx_mono (p.process t) u
  rw [← Parser.process_append, h.2] at m2
  omega

/-- all of a frame-shaped sequence but its last byte touches neither queue nor counter -/
theorem butlast_no_events (p : Parser) (h : p.hunting) (cls id : Nat) (pl : List Nat) (a : Nat)
    (hlen : pl.length ≤ MAXLEN) :
    let p' := p.process ([0xB5, 0x62] ++ ([cls, id, pl.length % 256, pl.length / 256] ++ (pl ++ [a])))
    p'.queue = p.queue ∧ p'.framesRx = p.framesRx := by
  intro p'
  refine ⟨(process_frame_butlast p h cls id pl a hlen).2, ?_⟩
  -- the counter: one more byte completes the frame and raises it by at most one … use the full frame
  have hfull := p.process_frame h cls id pl a ((frameCk cls id pl).b + 1) hlen
  obtain ⟨-, -, hd⟩ := hfull
  have hbytes : frameBytes cls id pl a ((frameCk cls id pl).b + 1) =
      ([0xB5, 0x62] ++ ([cls, id, pl.length % 256, pl.length / 256] ++ (pl ++ [a]))) ++ [(frameCk cls id pl).b + 1] := by
    simp [frameBytes]
  rw [hbytes, Parser.process_append] at hd
  have hbad : ¬ ((frameCk cls id pl).a = a ∧ (frameCk cls id pl).b = (frameCk cls id pl).b + 1) := fun h => by omega
  simp only [Parser.deliver, hbad, if_false, Prod.mk.injEq] at hd
  have m := process_framesRx_mono p' [(frameCk cls id pl).b + 1]
  have m0 := process_framesRx_mono p ([0xB5, 0x62] ++ ([cls, id, pl.length % 256, pl.length / 256] ++ (pl ++ [a])))
  rw [hd.2] at m
  exact Nat.le_antisymm m m0

theorem init_eta (p : Parser) (h : p.st = .init) : ({ p with st := .init } : Parser) = p := by
  cases p; simp only at h; subst h; rfl

/-- **the parser refines the reference scanner** -/
theorem process_eq_scanFuel (fuel : Nat) : ∀ (s : List Nat) (p : Parser), s.length < fuel → Bytes s → p.st = .init →
    (p.process s).queue = p.queue ++ evPackets p.filter (scanFuel MAXLEN fuel s) ∧
    (p.process s).framesRx = p.framesRx + evGood (scanFuel MAXLEN fuel s) := by
  induction fuel with
  | zero => intro s p h; omega
  | succ fuel ih =>
    intro s p hlen hb hst
    cases s with
    | nil => simp [Parser.process, scanFuel, evPackets, evGood]
    | cons b rest =>
      have hbr : Bytes rest := fun x hx => hb x (by simp [hx])
      have hlr : rest.length < fuel := by simp only [List.length_cons] at hlen; omega
      by_cases hb5 : b = 0xB5
      · subst hb5
        cases rest with
        | nil => simp [Parser.process, Parser.step, hst, scanFuel, evPackets, evGood]
        | cons c r2 =>
          have hbr2 : Bytes r2 := fun x hx => hbr x (by simp [hx])
          by_cases h62 : c = 0x62
          · subst h62
            -- a sync pair
            match r2, hbr2, hlr, hlen with
            | [], _, _, _ =>
              simp [Parser.process, Parser.step, hst, Parser.reset, scanFuel, evPackets, evGood]
            | [x1], _, _, _ =>
              simp [Parser.process, Parser.step, hst, Parser.reset, scanFuel, evPackets, evGood]
            | [x1, x2], _, _, _ =>
              simp [Parser.process, Parser.step, hst, Parser.reset, scanFuel, evPackets, evGood]
            | [x1, x2, x3], _, _, _ =>
              simp [Parser.process, Parser.step, hst, Parser.reset, scanFuel, evPackets, evGood]
            | cls :: id :: l1 :: l2 :: r3, hbr2, hlr, hlen =>
              have hl1 : l1 < 256 := hbr2 l1 (by simp)
              have hbr3 : Bytes r3 := fun x hx => hbr2 x (by simp [hx])
              have hl3 : r3.length < fuel := by simp only [List.length_cons] at hlr; omega
              have hscan : scanFuel MAXLEN (fuel + 1) (0xB5 :: 0x62 :: cls :: id :: l1 :: l2 :: r3) =
                  if l1 + 256 * l2 > MAXLEN then scanFuel MAXLEN fuel r3
                  else if r3.length < l1 + 256 * l2 + 2 then []
                  else (if r3.getD (l1 + 256 * l2) 0 = ckA (body cls id (r3.take (l1 + 256 * l2))) ∧
                           r3.getD (l1 + 256 * l2 + 1) 0 = ckB (body cls id (r3.take (l1 + 256 * l2)))
                        then Ev.frame cls id (r3.take (l1 + 256 * l2)) else Ev.bad) ::
                       scanFuel MAXLEN fuel (r3.drop (l1 + 256 * l2 + 2)) := by
                simp [scanFuel]
              rw [hscan]
              have hsplit : (0xB5 :: 0x62 :: cls :: id :: l1 :: l2 :: r3) = [0xB5, 0x62, cls, id, l1, l2] ++ r3 := rfl
              by_cases hbig : l1 + 256 * l2 > MAXLEN
              · rw [if_pos hbig, hsplit, Parser.process_append]
                obtain ⟨a1, a2, a3, a4⟩ := p.process_long (Or.inl hst) cls id l1 l2 (by omega)
                obtain ⟨i1, i2⟩ := ih r3 _ hl3 hbr3 a1
                rw [i1, i2, a2, a3, a4]
                exact ⟨rfl, rfl⟩
              · rw [if_neg hbig]
                have hle : l1 + 256 * l2 ≤ MAXLEN := by omega
                have hmod : (l1 + 256 * l2) % 256 = l1 := by omega
                have hdiv : (l1 + 256 * l2) / 256 = l2 := by omega
                by_cases hshort : r3.length < l1 + 256 * l2 + 2
                · rw [if_pos hshort]
                  simp only [evPackets, evGood, List.append_nil, Nat.add_zero]
                  -- complete the truncated frame with zeros: nothing can have been queued
                  let w := r3 ++ List.replicate (l1 + 256 * l2 + 1 - r3.length) 0
                  have hw : w.length = l1 + 256 * l2 + 1 := by simp [w]; omega
                  have hwne : w ≠ [] := by intro e; rw [e] at hw; simp at hw
                  have hpl : w.dropLast.length = l1 + 256 * l2 := by simp [hw]
                  have hb0 := butlast_no_events p (Or.inl hst) cls id w.dropLast (w.getLast hwne) (by rw [hpl]; exact hle)
                  rw [hpl, hmod, hdiv, List.dropLast_concat_getLast hwne] at hb0
                  refine partial_no_events p _ (List.replicate (l1 + 256 * l2 + 1 - r3.length) 0) ?_
                  have : (0xB5 :: 0x62 :: cls :: id :: l1 :: l2 :: r3) ++ List.replicate (l1 + 256 * l2 + 1 - r3.length) 0 =
                      [0xB5, 0x62] ++ ([cls, id, l1, l2] ++ w) := by simp [w]
                  rw [this]; exact hb0
                · rw [if_neg hshort]
                  -- a complete frame-shaped sequence
                  obtain ⟨n, hn⟩ : ∃ n, n = l1 + 256 * l2 := ⟨_, rfl⟩
                  rw [← hn] at hshort hle hmod hdiv ⊢
                  have hr3 : r3 = r3.take n ++ [r3.getD n 0, r3.getD (n + 1) 0] ++ r3.drop (n + 2) := by
                    have h1 : n < r3.length := by omega
                    have h2 : n + 1 < r3.length := by omega
                    have e1 : r3.getD n 0 = r3[n] := by simp [List.getD, List.getElem?_eq_getElem h1]
                    have e2 : r3.getD (n + 1) 0 = r3[n + 1] := by simp [List.getD, List.getElem?_eq_getElem h2]
                    rw [e1, e2]
                    have d1 : r3.drop n = r3[n] :: r3.drop (n + 1) := (List.drop_eq_getElem_cons h1)
                    have d2 : r3.drop (n + 1) = r3[n + 1] :: r3.drop (n + 2) := (List.drop_eq_getElem_cons h2)
                    calc r3 = r3.take n ++ r3.drop n := (List.take_append_drop n r3).symm
                      _ = _ := by rw [d1, d2]; simp
                  have hpl : (r3.take n).length = n := by simp [List.length_take]; omega
                  have hfb : (0xB5 :: 0x62 :: cls :: id :: l1 :: l2 :: r3) =
                      frameBytes cls id (r3.take n) (r3.getD n 0) (r3.getD (n + 1) 0) ++ r3.drop (n + 2) := by
                    rw [frameBytes, hpl]
                    rw [hmod, hdiv]
                    conv => lhs; rw [hr3]
                    simp [List.append_assoc]
                  rw [hfb, Parser.process_append]
                  obtain ⟨a1, a2, a3⟩ := p.process_frame (Or.inl hst) cls id (r3.take n) (r3.getD n 0) (r3.getD (n + 1) 0)
                    (by rw [hpl]; exact hle)
                  have hdl : (r3.drop (n + 2)).length < fuel := by simp only [List.length_drop]; omega
                  have hbd : Bytes (r3.drop (n + 2)) := fun x hx => hbr3 x (List.mem_of_mem_drop hx)
                  obtain ⟨i1, i2⟩ := ih (r3.drop (n + 2)) _ hdl hbd a1
                  have hq := congrArg Prod.fst a3
                  have hr := congrArg Prod.snd a3
                  simp only at hq hr
                  rw [i1, i2, a2, hq, hr]
                  have hck : frameCk cls id (r3.take n) = ⟨ckA (body cls id (r3.take n)), ckB (body cls id (r3.take n))⟩ :=
                    fletcher_closed (body cls id (r3.take n))
                  simp only [Parser.deliver, hck, Parser.passes]
                  by_cases hv : ckA (body cls id (r3.take n)) = r3.getD n 0 ∧ ckB (body cls id (r3.take n)) = r3.getD (n + 1) 0
                  · have hv' : r3.getD n 0 = ckA (body cls id (r3.take n)) ∧ r3.getD (n + 1) 0 = ckB (body cls id (r3.take n)) :=
                      ⟨hv.1.symm, hv.2.symm⟩
                    rw [if_pos hv, if_pos hv']
                    simp only [evPackets, evGood]
                    by_cases hfp : filterPasses p.filter ⟨cls, id⟩ = true
                    · simp only [hfp, if_true, List.append_assoc]; refine ⟨?_, by omega⟩; simp
                    · simp only [hfp]; refine ⟨?_, by omega⟩; simp
                  · have hv' : ¬ (r3.getD n 0 = ckA (body cls id (r3.take n)) ∧ r3.getD (n + 1) 0 = ckB (body cls id (r3.take n))) :=
                      fun h => hv ⟨h.1.symm, h.2.symm⟩
                    rw [if_neg hv, if_neg hv']
                    simp [evPackets, evGood, List.append_assoc]
          · -- `B5` followed by something else: the scanner moves on by one byte
            have hscan : scanFuel MAXLEN (fuel + 1) (0xB5 :: c :: r2) = scanFuel MAXLEN fuel (c :: r2) := by
              simp [scanFuel, h62]
            rw [hscan]
            obtain ⟨i1, i2⟩ := ih (c :: r2) p hlr hbr hst
            have hproc : p.process (0xB5 :: c :: r2) = p.process (c :: r2) := by
              show ((p.step 0xB5).step c).process r2 = (p.step c).process r2
              rw [step_init_sync p _ hst rfl]
              by_cases hc : c = 0xB5
              · rw [step_sync_b5 _ _ rfl hc, step_init_sync p _ hst hc]
              · rw [step_sync_other _ _ rfl h62 hc, step_init_other p _ hst hc, init_eta p hst]
            rw [hproc]; exact ⟨i1, i2⟩
      · have hscan : scanFuel MAXLEN (fuel + 1) (b :: rest) = scanFuel MAXLEN fuel rest := by
          simp [scanFuel, hb5]
        rw [hscan]
        show ((p.step b).process rest).queue = _ ∧ ((p.step b).process rest).framesRx = _
        rw [step_init_other p b hst hb5]
        exact ih rest p hlr hbr hst

/-- **C02 + C03 in one statement, for every byte string, chunking and filter**: a newly created
    parser queues exactly the packets of the reference scanner's events, in order, and counts exactly
    its checksum-valid frames -/
theorem parser_refines_scan (f : Option (List Cid)) (s : List Nat) (hs : Bytes s) (chunks : List (List Nat))
    (hc : chunks.flatten = s) :
    (chunks.foldl Parser.process (Parser.fresh f)).queue = evPackets f (scan MAXLEN s) ∧
    (chunks.foldl Parser.process (Parser.fresh f)).framesRx = evGood (scan MAXLEN s) := by
  rw [Parser.process_chunks, hc]
  obtain ⟨h1, h2⟩ := process_eq_scanFuel (s.length + 1) s (Parser.fresh f) (Nat.lt_succ_self _) hs rfl
  rw [h1, h2]
  simp [Parser.fresh, scan]

end Ubx

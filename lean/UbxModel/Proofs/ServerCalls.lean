import UbxModel.Proofs.ServerSent
/-! The shape of the back-end call sequence of a request: `flush` immediately before every
    transmission, receives, and `recover` — nothing else. -/
namespace Ubx

/-- a call sequence made of the blocks `flush·tx`, `rx` and `recover` -/
inductive Blocks : List Call → Prop
  | nil : Blocks []
  | flushTx (b : List Nat) (rest : List Call) : Blocks rest → Blocks (.flush :: .tx b :: rest)
  | rx (rest : List Call) : Blocks rest → Blocks (.rx :: rest)
  | recover (rest : List Call) : Blocks rest → Blocks (.recover :: rest)

theorem Blocks.append {a b : List Call} (ha : Blocks a) (hb : Blocks b) : Blocks (a ++ b) := by
  induction ha with
  | nil => exact hb
  | flushTx x rest _ ih => exact Blocks.flushTx x _ ih
  | rx rest _ ih => exact Blocks.rx _ ih
  | recover rest _ ih => exact Blocks.recover _ ih

/-- calls made since `lg`: only receives -/
def OnlyRx (lg lg' : Log) : Prop := ∃ k, lg'.calls = lg.calls ++ List.replicate k Call.rx

theorem OnlyRx.refl (lg : Log) : OnlyRx lg lg := ⟨0, by simp⟩
theorem OnlyRx.trans {a b c : Log} (h1 : OnlyRx a b) (h2 : OnlyRx b c) : OnlyRx a c := by
  obtain ⟨k1, e1⟩ := h1; obtain ⟨k2, e2⟩ := h2
  exact ⟨k1 + k2, by rw [e2, e1, List.append_assoc, List.replicate_append_replicate]⟩

theorem blocks_replicate_rx (k : Nat) : Blocks (List.replicate k Call.rx) := by
  induction k with
  | zero => exact Blocks.nil
  | succ k ih => exact Blocks.rx _ ih

theorem wait_onlyRx (env : Env) (reg : Registry) (deadline : Nat) (p : Parser) (lg : Log) :
    OnlyRx lg (wait env reg deadline p lg).2.2 := by
  fun_induction wait env reg deadline p lg with
  | case1 p lg hlt r lg' p1 f q hd => exact ⟨1, rfl⟩
  | case2 p lg hlt r lg' p1 q hd ih => exact OnlyRx.trans ⟨1, rfl⟩ ih
  | case3 p lg hnl => exact OnlyRx.refl lg

theorem pollWaitAck_onlyRx (env : Env) (reg : Registry) (req : Cid) (deadline : Nat) (p : Parser) (lg : Log) :
    OnlyRx lg (pollWaitAck env reg req deadline p lg).2.2 := by
  fun_induction pollWaitAck env reg req deadline p lg with
  | case1 p lg f p' lg' hw hck => have := wait_onlyRx env reg deadline p lg; rw [hw] at this; exact this
  | case2 p lg f p' lg' hw hck ih => have := wait_onlyRx env reg deadline p lg; rw [hw] at this; exact this.trans ih
  | case3 p lg p' lg' hw => have := wait_onlyRx env reg deadline p lg; rw [hw] at this; exact this

theorem pollAttempt_onlyRx (env : Env) (reg : Registry) (req : Cid) (delay deadline : Nat) (p : Parser) (lg : Log) :
    OnlyRx lg (pollAttempt env reg req delay deadline p lg).2.2 := by
  fun_induction pollAttempt env reg req delay deadline p lg with
  | case1 p lg f p' lg' hw hcid hcfg p'' lg'' hack =>
    have h1 := wait_onlyRx env reg deadline p lg; rw [hw] at h1
    have h2 := pollWaitAck_onlyRx env reg req (lg'.now + delay) p' lg'; rw [hack] at h2
    exact h1.trans h2
  | case2 p lg f p' lg' hw hcid hcfg p'' lg'' hack =>
    have h1 := wait_onlyRx env reg deadline p lg; rw [hw] at h1
    have h2 := pollWaitAck_onlyRx env reg req (lg'.now + delay) p' lg'; rw [hack] at h2
    exact h1.trans h2
  | case3 p lg f p' lg' hw hcid hcfg => have h1 := wait_onlyRx env reg deadline p lg; rw [hw] at h1; exact h1
  | case4 p lg f p' lg' hw hcid ih => have h1 := wait_onlyRx env reg deadline p lg; rw [hw] at h1; exact h1.trans ih
  | case5 p lg p' lg' hw => have h1 := wait_onlyRx env reg deadline p lg; rw [hw] at h1; exact h1

/-- calls made since `lg` form blocks -/
def InBlocks (lg lg' : Log) : Prop := ∃ c, lg'.calls = lg.calls ++ c ∧ Blocks c

theorem InBlocks.trans {a b c : Log} (h1 : InBlocks a b) (h2 : InBlocks b c) : InBlocks a c := by
  obtain ⟨c1, e1, b1⟩ := h1; obtain ⟨c2, e2, b2⟩ := h2
  exact ⟨c1 ++ c2, by rw [e2, e1, List.append_assoc], b1.append b2⟩

theorem OnlyRx.inBlocks {a b : Log} (h : OnlyRx a b) : InBlocks a b := by
  obtain ⟨k, e⟩ := h; exact ⟨_, e, blocks_replicate_rx k⟩

theorem flushSend_then (env : Env) (lg : Log) (w : List Nat) (lg' : Log)
    (h : InBlocks (flushSend env lg w).2 lg') : InBlocks lg lg' := by
  obtain ⟨c, e, b⟩ := h
  exact ⟨.flush :: .tx w :: c, by rw [e]; simp [flushSend], Blocks.flushTx w c b⟩

theorem recover_inBlocks (lg : Log) : InBlocks lg (recover lg) :=
  ⟨[.recover], rfl, Blocks.recover _ Blocks.nil⟩

theorem setLoop_calls (env : Env) (reg : Registry) (delay : Nat) (req : Req) (n : Nat) (p : Parser) (lg : Log) :
    InBlocks lg (setLoop env reg delay req n p lg).2.2 := by
  induction n generalizing p lg with
  | zero => exact ⟨[], by simp [setLoop], Blocks.nil⟩
  | succ n ih =>
    simp only [setLoop]
    cases hok : (flushSend env lg req.wire).1
    · simp only [Bool.false_eq_true, if_false]
      exact flushSend_then env lg req.wire _ (ih p _)
    · simp only [if_true]
      have hw := wait_onlyRx env reg ((flushSend env lg req.wire).2.now + delay) p.emptyQueue.restart (flushSend env lg req.wire).2
      generalize wait env reg ((flushSend env lg req.wire).2.now + delay) p.emptyQueue.restart
        (flushSend env lg req.wire).2 = res at hw
      obtain ⟨fo, p2, lg2⟩ := res
      apply flushSend_then
      cases fo with
      | none => exact hw.inBlocks.trans ((recover_inBlocks lg2).trans (ih p2 _))
      | some f =>
        simp only
        split
        · exact hw.inBlocks.trans (ih p2 _)
        · exact hw.inBlocks

theorem mgaLoop_calls (env : Env) (reg : Registry) (delay : Nat) (req : Req) (n : Nat) (p : Parser) (lg : Log) :
    InBlocks lg (mgaLoop env reg delay req n p lg).2.2 := by
  induction n generalizing p lg with
  | zero => exact ⟨[], by simp [mgaLoop], Blocks.nil⟩
  | succ n ih =>
    simp only [mgaLoop]
    cases hok : (flushSend env lg req.wire).1
    · simp only [Bool.false_eq_true, if_false]
      exact flushSend_then env lg req.wire _ (ih p _)
    · simp only [if_true]
      have hw := wait_onlyRx env reg ((flushSend env lg req.wire).2.now + delay) p.emptyQueue.restart (flushSend env lg req.wire).2
      generalize wait env reg ((flushSend env lg req.wire).2.now + delay) p.emptyQueue.restart
        (flushSend env lg req.wire).2 = res at hw
      obtain ⟨fo, p2, lg2⟩ := res
      apply flushSend_then
      cases fo with
      | none => exact hw.inBlocks.trans ((recover_inBlocks lg2).trans (ih p2 _))
      | some f =>
        simp only
        split
        · exact hw.inBlocks
        · exact hw.inBlocks.trans (ih p2 _)

theorem pollLoop_calls (env : Env) (reg : Registry) (delay : Nat) (req : Req) (n : Nat) (p : Parser) (lg : Log) :
    InBlocks lg (pollLoop env reg delay req n p lg).2.2 := by
  induction n generalizing p lg with
  | zero => exact ⟨[], by simp [pollLoop], Blocks.nil⟩
  | succ n ih =>
    simp only [pollLoop]
    cases hok : (flushSend env lg req.wire).1
    · simp only [Bool.false_eq_true, if_false]
      exact flushSend_then env lg req.wire _ (ih p _)
    · simp only [if_true]
      have hw := pollAttempt_onlyRx env reg req.cid delay ((flushSend env lg req.wire).2.now + delay) p.emptyQueue.restart
        (flushSend env lg req.wire).2
      generalize pollAttempt env reg req.cid delay ((flushSend env lg req.wire).2.now + delay) p.emptyQueue.restart
        (flushSend env lg req.wire).2 = res at hw
      obtain ⟨fo, p2, lg2⟩ := res
      apply flushSend_then
      cases fo with
      | none => exact hw.inBlocks.trans ((recover_inBlocks lg2).trans (ih p2 _))
      | some f => exact hw.inBlocks

end Ubx

import UbxModel.Proofs.ServerProvenance
namespace Ubx

/-- two parsers that will behave alike: same state, filter and queue; frame-progress fields equal
    unless hunting; only the counter may differ -/
def Alike (p q : Parser) : Prop := ∃ n0, Sim [] n0 p q

theorem Alike.queue {p q : Parser} (h : Alike p q) : p.queue = q.queue := by
  obtain ⟨n0, hs⟩ := h; simpa using hs.queue

theorem Alike.process {p q : Parser} (h : Alike p q) (bs : List Nat) : Alike (p.process bs) (q.process bs) := by
  obtain ⟨n0, hs⟩ := h; exact ⟨n0, hs.process bs⟩

theorem Alike.withQueue {p q : Parser} (h : Alike p q) (x : List Packet) :
    Alike { p with queue := x } { q with queue := x } := by
  obtain ⟨n0, hs⟩ := h
  exact ⟨n0, ⟨hs.st, hs.filt, hs.fr, by simp, hs.cnt⟩⟩

/-- after `empty_queue()` and `restart()` any two parsers with the same filter are alike -/
theorem alike_after_restart (p q : Parser) (hf : p.filter = q.filter) :
    Alike p.emptyQueue.restart q.emptyQueue.restart ∨ Alike q.emptyQueue.restart p.emptyQueue.restart := by
  rcases Nat.le_total q.framesRx p.framesRx with h | h
  · exact Or.inl ⟨p.framesRx - q.framesRx, ⟨rfl, hf, Or.inl rfl, by simp [Parser.emptyQueue, Parser.restart],
      by simp [Parser.emptyQueue, Parser.restart]; omega⟩⟩
  · exact Or.inr ⟨q.framesRx - p.framesRx, ⟨rfl, hf.symm, Or.inl rfl, by simp [Parser.emptyQueue, Parser.restart],
      by simp [Parser.emptyQueue, Parser.restart]; omega⟩⟩

/-- one unfolding of `_wait()` -/
theorem wait_eq (env : Env) (reg : Registry) (deadline : Nat) (p : Parser) (lg : Log) :
    wait env reg deadline p lg =
      if lg.now < deadline then
        match drain reg (p.process (env.rx lg.nRx).2).queue with
        | (some f, x) => (some f, { p.process (env.rx lg.nRx).2 with queue := x },
            { lg with now := lg.now + tick (env.rx lg.nRx).1, nRx := lg.nRx + 1, calls := lg.calls ++ [.rx] })
        | (none, x) => wait env reg deadline { p.process (env.rx lg.nRx).2 with queue := x }
            { lg with now := lg.now + tick (env.rx lg.nRx).1, nRx := lg.nRx + 1, calls := lg.calls ++ [.rx] }
      else (none, p, lg) := by
  rw [wait]
  simp only [process_if_empty]
  split <;> rfl

/-- `_wait()` cannot tell alike parsers apart -/
theorem wait_alike (env : Env) (reg : Registry) (deadline : Nat) (p q : Parser) (lg : Log) (h : Alike p q) :
    (wait env reg deadline p lg).1 = (wait env reg deadline q lg).1 ∧
    (wait env reg deadline p lg).2.2 = (wait env reg deadline q lg).2.2 ∧
    Alike (wait env reg deadline p lg).2.1 (wait env reg deadline q lg).2.1 := by
  generalize hn : deadline - lg.now = n
  induction n using Nat.strongRecOn generalizing p q lg with
  | _ n ih =>
    rw [wait_eq env reg deadline p lg, wait_eq env reg deadline q lg]
    by_cases hlt : lg.now < deadline
    · simp only [hlt, if_true]
      have ha : Alike (p.process (env.rx lg.nRx).2) (q.process (env.rx lg.nRx).2) := h.process _
      rw [← ha.queue]
      cases hd : drain reg (p.process (env.rx lg.nRx).2).queue with
      | mk fo x =>
        cases fo with
        | some f => simp only; exact ⟨trivial, trivial, ha.withQueue x⟩
        | none =>
          simp only
          refine ih (deadline - (lg.now + tick (env.rx lg.nRx).1)) ?_ _ _ _ (ha.withQueue x) rfl
          subst hn
          simp only [tick]; omega
    · simp only [hlt, if_false]
      exact ⟨trivial, trivial, h⟩

end Ubx

namespace Ubx

theorem Alike.filter {p q : Parser} (h : Alike p q) : p.filter = q.filter := by
  obtain ⟨n0, hs⟩ := h; exact hs.filt

/-- an attempt — `empty_queue()`, `restart()`, `_wait()` — gives the same result and log whatever
    state the parser was left in, provided the filter is the same -/
theorem attempt_independent (env : Env) (reg : Registry) (deadline : Nat) (p q : Parser) (lg : Log)
    (hf : p.filter = q.filter) :
    (wait env reg deadline p.emptyQueue.restart lg).1 = (wait env reg deadline q.emptyQueue.restart lg).1 ∧
    (wait env reg deadline p.emptyQueue.restart lg).2.2 = (wait env reg deadline q.emptyQueue.restart lg).2.2 ∧
    (wait env reg deadline p.emptyQueue.restart lg).2.1.filter = (wait env reg deadline q.emptyQueue.restart lg).2.1.filter := by
  rcases alike_after_restart p q hf with h | h
  · obtain ⟨a, b, c⟩ := wait_alike env reg deadline _ _ lg h
    exact ⟨a, b, c.filter⟩
  · obtain ⟨a, b, c⟩ := wait_alike env reg deadline _ _ lg h
    exact ⟨a.symm, b.symm, c.filter.symm⟩

/-- **C10 for `set()`**: result, everything transmitted, every back-end call, the clock and the number
    of reads are the same for any two parser states with the same filter — in particular for the
    parser a long history left behind and for a newly created one -/
theorem setLoop_independent (env : Env) (reg : Registry) (delay : Nat) (req : Req) (n : Nat)
    (p q : Parser) (lg : Log) (hf : p.filter = q.filter) :
    (setLoop env reg delay req n p lg).1 = (setLoop env reg delay req n q lg).1 ∧
    (setLoop env reg delay req n p lg).2.2 = (setLoop env reg delay req n q lg).2.2 := by
  induction n generalizing p q lg with
  | zero => exact ⟨rfl, rfl⟩
  | succ n ih =>
    simp only [setLoop]
    cases hok : (flushSend env lg req.wire).1
    · simp only [Bool.false_eq_true, if_false]
      exact ih p q _ hf
    · simp only [if_true]
      obtain ⟨a, b, c⟩ := attempt_independent env reg ((flushSend env lg req.wire).2.now + delay) p q
        (flushSend env lg req.wire).2 hf
      generalize wait env reg ((flushSend env lg req.wire).2.now + delay) p.emptyQueue.restart
        (flushSend env lg req.wire).2 = rp at a b c
      generalize wait env reg ((flushSend env lg req.wire).2.now + delay) q.emptyQueue.restart
        (flushSend env lg req.wire).2 = rq at a b c
      obtain ⟨fp, pp, lp⟩ := rp
      obtain ⟨fq, pq, lq⟩ := rq
      simp only at a b c
      subst a; subst b
      cases fp with
      | none => exact ih pp pq _ c
      | some f =>
        simp only
        split
        · exact ih pp pq _ c
        · exact ⟨rfl, rfl⟩

end Ubx

import UbxModel.Proofs.ParserRestart
namespace Ubx

/-- parsing does not read the queue: replacing the queue commutes with a step, and a step only
    appends -/
theorem step_with_queue (p : Parser) (q : List Packet) (d : Nat) :
    ∃ app, (p.step d).queue = p.queue ++ app ∧
      ({ p with queue := q } : Parser).step d = { p.step d with queue := q ++ app } := by
  obtain ⟨pq, hpq⟩ : ∃ pq : Parser, pq = { p with queue := q } := ⟨_, rfl⟩
  rw [← hpq]
  have est : pq.st = p.st := by rw [hpq]
  have elen : pq.msgLen = p.msgLen := by rw [hpq]
  have eofs : pq.ofs = p.ofs := by rw [hpq]
  have eck : pq.ck = p.ck := by rw [hpq]
  have ecka : pq.cka = p.cka := by rw [hpq]
  cases hst : p.st with
  | init =>
    by_cases hd : d = 0xB5
    · exact ⟨[], by simp [step_init_sync p d hst hd],
        by rw [step_init_sync pq d (est.trans hst) hd, step_init_sync p d hst hd]; subst hpq; simp⟩
    · exact ⟨[], by simp [step_init_other p d hst hd],
        by rw [step_init_other pq d (est.trans hst) hd, step_init_other p d hst hd]; subst hpq; simp⟩
  | sync =>
    by_cases h62 : d = 0x62
    · exact ⟨[], by simp [step_sync_62 p d hst h62, Parser.reset],
        by rw [step_sync_62 pq d (est.trans hst) h62, step_sync_62 p d hst h62]; subst hpq; simp [Parser.reset]⟩
    · by_cases hb5 : d = 0xB5
      · exact ⟨[], by simp [step_sync_b5 p d hst hb5],
          by rw [step_sync_b5 pq d (est.trans hst) hb5, step_sync_b5 p d hst hb5]; subst hpq; simp⟩
      · exact ⟨[], by simp [step_sync_other p d hst h62 hb5],
          by rw [step_sync_other pq d (est.trans hst) h62 hb5, step_sync_other p d hst h62 hb5]; subst hpq; simp⟩
  | cls => exact ⟨[], by simp [step_cls p d hst], by rw [step_cls pq d (est.trans hst), step_cls p d hst]; subst hpq; simp⟩
  | id => exact ⟨[], by simp [step_id p d hst], by rw [step_id pq d (est.trans hst), step_id p d hst]; subst hpq; simp⟩
  | len1 => exact ⟨[], by simp [step_len1 p d hst], by rw [step_len1 pq d (est.trans hst), step_len1 p d hst]; subst hpq; simp⟩
  | len2 =>
    by_cases h0 : p.msgLen + d * 256 = 0
    · exact ⟨[], by simp [step_len2_zero p d hst h0],
        by rw [step_len2_zero pq d (est.trans hst) (by rw [elen]; exact h0), step_len2_zero p d hst h0]; subst hpq; simp⟩
    · by_cases hbig : p.msgLen + d * 256 > MAXLEN
      · exact ⟨[], by simp [step_len2_long p d hst hbig],
          by rw [step_len2_long pq d (est.trans hst) (by rw [elen]; exact hbig), step_len2_long p d hst hbig]; subst hpq; simp⟩
      · exact ⟨[], by simp [step_len2_data p d hst h0 hbig],
          by rw [step_len2_data pq d (est.trans hst) (by rw [elen]; exact h0) (by rw [elen]; exact hbig),
            step_len2_data p d hst h0 hbig]; subst hpq; simp⟩
  | data =>
    by_cases hl : p.ofs + 1 = p.msgLen
    · exact ⟨[], by simp [step_data_last p d hst hl],
        by rw [step_data_last pq d (est.trans hst) (by rw [eofs, elen]; exact hl), step_data_last p d hst hl]; subst hpq; simp⟩
    · exact ⟨[], by simp [step_data_more p d hst hl],
        by rw [step_data_more pq d (est.trans hst) (by rw [eofs, elen]; exact hl), step_data_more p d hst hl]; subst hpq; simp⟩
  | crc1 => exact ⟨[], by simp [step_crc1 p d hst], by rw [step_crc1 pq d (est.trans hst), step_crc1 p d hst]; subst hpq; simp⟩
  | crc2 =>
    by_cases hok : p.ck.a = p.cka ∧ p.ck.b = d
    · by_cases hf : p.passes ⟨p.msgClass, p.msgId⟩ = true
      · refine ⟨[.data ⟨p.msgClass, p.msgId⟩ p.msgData], by simp [step_crc2_ok p d hst hok, hf], ?_⟩
        rw [step_crc2_ok pq d (est.trans hst) (by rw [eck, ecka]; exact hok), step_crc2_ok p d hst hok]
        subst hpq
        have : (({ p with queue := q } : Parser).passes ⟨p.msgClass, p.msgId⟩) = p.passes ⟨p.msgClass, p.msgId⟩ := rfl
        simp only [this, hf, if_true]
        try simp
      · refine ⟨[], by simp [step_crc2_ok p d hst hok, hf], ?_⟩
        rw [step_crc2_ok pq d (est.trans hst) (by rw [eck, ecka]; exact hok), step_crc2_ok p d hst hok]
        subst hpq
        have : (({ p with queue := q } : Parser).passes ⟨p.msgClass, p.msgId⟩) = p.passes ⟨p.msgClass, p.msgId⟩ := rfl
        simp only [this, hf]
        try simp
    · refine ⟨[.crcError], by simp [step_crc2_bad p d hst hok], ?_⟩
      rw [step_crc2_bad pq d (est.trans hst) (by rw [eck, ecka]; exact hok), step_crc2_bad p d hst hok]
      subst hpq; simp

theorem process_with_queue (p : Parser) (q : List Packet) (bs : List Nat) :
    ∃ app, (p.process bs).queue = p.queue ++ app ∧
      ({ p with queue := q } : Parser).process bs = { p.process bs with queue := q ++ app } := by
  induction bs generalizing p q with
  | nil => exact ⟨[], by simp [Parser.process], by simp [Parser.process]⟩
  | cons d ds ih =>
    obtain ⟨a1, h1, h2⟩ := step_with_queue p q d
    obtain ⟨a2, h3, h4⟩ := ih (p.step d) (q ++ a1)
    refine ⟨a1 ++ a2, ?_, ?_⟩
    · show ((p.step d).process ds).queue = _
      rw [h3, h1, List.append_assoc]
    · show (({ p with queue := q } : Parser).step d).process ds = _
      rw [h2, h4]
      show _ = { (p.step d).process ds with queue := q ++ (a1 ++ a2) }
      rw [List.append_assoc]

end Ubx

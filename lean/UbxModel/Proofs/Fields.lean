import UbxModel.Model.Fields
import UbxModel.Proofs.Codec
import UbxModel.Spec.Read
namespace Ubx
open Spec

theorem leVal_eq_leNat (bs : List Nat) : leVal bs = leNat bs := by
  induction bs with
  | nil => rfl
  | cons b bs ih => simp [leVal, leNat, ih]

/-- offset of the `i`-th item: sum of the widths before it -/
def Table.offsetOf (t : Table) (i : Nat) : Nat := ((t.take i).map (·.2.width)).sum

theorem unpack_consumes (k : Kind) (data : List Nat) (v : Val) (n : Nat) (h : k.unpack data = .ok (v, n)) :
    n = k.width := by
  cases k with
  | uint w =>
    simp only [Kind.unpack, unpackU] at h
    split at h <;> simp [Except.map] at h
    exact h.2.symm
  | sint w =>
    simp only [Kind.unpack, unpackI] at h
    split at h <;> simp [Except.map] at h
    exact h.2.symm
  | pad m => simp [Kind.unpack] at h; exact h.2.symm
  | text m =>
    simp only [Kind.unpack] at h
    split at h
    · cases h
    · split at h
      · cases h
      · simp at h; exact h.2.symm

theorem toSigned_eq_read (w n : Nat) :
    toSigned w n = (if n ≥ 2 ^ (8 * w - 1) then (n : Int) - ((2 ^ (8 * w) : Nat) : Int) else (n : Int)) := by
  unfold toSigned
  by_cases h : n < 2 ^ (8 * w - 1)
  · have h' : ¬ (n ≥ 2 ^ (8 * w - 1)) := by omega
    rw [if_pos h, if_neg h']
  · have h' : n ≥ 2 ^ (8 * w - 1) := by omega
    rw [if_neg h, if_pos h']

theorem Table.offsetOf_zero (t : Table) : t.offsetOf 0 = 0 := by simp [Table.offsetOf]
theorem Table.offsetOf_succ (x : String × Kind) (t : Table) (i : Nat) :
    Table.offsetOf (x :: t) (i + 1) = x.2.width + t.offsetOf i := by
  simp [Table.offsetOf]
theorem Table.size_cons (x : String × Kind) (t : Table) : Table.size (x :: t) = x.2.width + t.size := by
  simp [Table.size]

/-- what one item's `unpack` yields, in terms of the specification -/
theorem unpack_reads (k : Kind) (pl : List Nat) (o : Nat) (v : Val) (n : Nat)
    (h : k.unpack (pl.drop o) = .ok (v, n)) :
    (∀ w, k = .uint w → v = .int (Spec.read pl o w false)) ∧
    (∀ w, k = .sint w → v = .int (Spec.read pl o w true)) ∧
    (∀ w, k = .text w → v = .str (readText pl o w)) := by
  refine ⟨?_, ?_, ?_⟩
  · intro w hk; subst hk
    simp only [Kind.unpack, unpackU] at h
    split at h <;> simp [Except.map] at h
    rw [← h.1]; simp [Spec.read, leVal_eq_leNat]
  · intro w hk; subst hk
    simp only [Kind.unpack, unpackI] at h
    split at h <;> simp [Except.map] at h
    rw [← h.1, toSigned_eq_read]; simp [Spec.read, leVal_eq_leNat]
  · intro w hk; subst hk
    simp only [Kind.unpack] at h
    split at h
    · cases h
    · split at h
      · cases h
      · simp at h; rw [← h.1]; simp [readText, stripNuls]

/-- **decoded fields are the values found at the prefix-sum offsets** (generic over the table) -/
theorem decode_reads (t : Table) (pl : List Nat) (o : Nat) (vs : List Val) (rem : List Nat)
    (h : t.decode (pl.drop o) = .ok (vs, rem)) :
    vs.length = t.length ∧ rem = pl.drop (o + t.size) ∧
    ∀ (i : Nat) (name : String) (w : Nat),
      (t[i]? = some (name, Kind.uint w) → vs[i]? = some (Val.int (Spec.read pl (o + t.offsetOf i) w false))) ∧
      (t[i]? = some (name, Kind.sint w) → vs[i]? = some (Val.int (Spec.read pl (o + t.offsetOf i) w true))) ∧
      (t[i]? = some (name, Kind.text w) → vs[i]? = some (Val.str (readText pl (o + t.offsetOf i) w))) := by
  induction t generalizing o vs with
  | nil =>
    simp only [Table.decode, Except.ok.injEq, Prod.mk.injEq] at h
    obtain ⟨rfl, rfl⟩ := h
    simp [Table.size]
  | cons x rest ih =>
    obtain ⟨nm, k⟩ := x
    simp only [Table.decode] at h
    split at h
    · cases h
    · rename_i v n hu
      split at h
      · cases h
      · rename_i vs' rem' hd
        simp only [Except.ok.injEq, Prod.mk.injEq] at h
        obtain ⟨rfl, rfl⟩ := h
        have hn := unpack_consumes k _ v n hu
        subst hn
        rw [List.drop_drop] at hd
        obtain ⟨h1, h2, h3⟩ := ih (o + k.width) vs' hd
        obtain ⟨r1, r2, r3⟩ := unpack_reads k pl o v _ hu
        refine ⟨by simp [h1], by rw [h2, Table.size_cons]; simp [Nat.add_assoc], ?_⟩
        intro i name w
        cases i with
        | zero =>
          simp only [List.getElem?_cons_zero, Option.some.injEq, Prod.mk.injEq, Table.offsetOf_zero, Nat.add_zero]
          refine ⟨?_, ?_, ?_⟩
          · rintro ⟨-, hk⟩; rw [r1 w hk]
          · rintro ⟨-, hk⟩; rw [r2 w hk]
          · rintro ⟨-, hk⟩; rw [r3 w hk]
        | succ j =>
          simp only [List.getElem?_cons_succ, Table.offsetOf_succ]
          have := h3 j name w
          simpa [Nat.add_assoc] using this

end Ubx

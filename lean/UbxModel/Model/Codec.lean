/-! Model of the `struct` little-endian integer formats used by `ubxlib/types.py`
    (`'<B' '<H' '<I' '<Q'` unsigned, `'<b' '<h' '<i' '<q'` signed two's complement).
    CPython's `struct` module itself is trusted, this file states what we take it to do. -/
namespace Ubx

/-- the Python exceptions the modelled code can raise -/
inductive Exc
  | valueError | structError | keyError | typeError | attributeError | indexError
  | assertionError | recursionError
deriving DecidableEq, Repr

/-- value of a little-endian byte string -/
def leVal : List Nat → Nat
  | [] => 0
  | b :: bs => b + 256 * leVal bs

/-- the `w` low-order bytes of `n`, least significant first -/
def leBytes : Nat → Nat → List Nat
  | 0, _ => []
  | w + 1, n => n % 256 :: leBytes w (n / 256)

/-- two's complement interpretation of an unsigned `w`-byte value -/
def toSigned (w : Nat) (n : Nat) : Int :=
  if n < 2 ^ (8 * w - 1) then (n : Int) else (n : Int) - (2 ^ (8 * w) : Nat)

/-- two's complement representation of a signed value (assumed in range) -/
def ofSigned (w : Nat) (v : Int) : Nat :=
  if 0 ≤ v then v.toNat else (v + (2 ^ (8 * w) : Nat)).toNat

/-- `struct.unpack('<' + fmt, data[:w])` for an unsigned format of `w` bytes -/
def unpackU (w : Nat) (data : List Nat) : Except Exc Int :=
  if data.length < w then .error .structError else .ok (leVal (data.take w))

/-- … for a signed format -/
def unpackI (w : Nat) (data : List Nat) : Except Exc Int :=
  if data.length < w then .error .structError else .ok (toSigned w (leVal (data.take w)))

/-- `struct.pack('<' + fmt, v)` for an unsigned format: `struct.error` when out of range -/
def packU (w : Nat) (v : Int) : Except Exc (List Nat) :=
  if 0 ≤ v ∧ v < (2 ^ (8 * w) : Nat) then .ok (leBytes w v.toNat) else .error .structError

/-- … for a signed format -/
def packI (w : Nat) (v : Int) : Except Exc (List Nat) :=
  if -((2 ^ (8 * w - 1) : Nat) : Int) ≤ v ∧ v < (2 ^ (8 * w - 1) : Nat) then .ok (leBytes w (ofSigned w v))
  else .error .structError

end Ubx

import UbxModel.Model.Tty
import UbxModel.Model.PyServer
/-! What the source-level translation of `ubxlib/server_tty.py` (`tools/pysrc2lean_tty.py` → `Gen/SrcTty.lean`) is written
    over: the serial back-end object with the pyserial port as an environment (`read(1)` takes some ticks and returns a byte or
    nothing; `write(data)` reports a number of bytes written; `reset_input_buffer()` and the `baudrate` attribute are logged). -/
namespace Py.Tty
open Ubx

/-- the serial line and the driver: the `j`-th `read(1)`, the result of the `k`-th `write()` -/
structure Env where
  rd : Nat → Nat × Option Nat
  wr : Nat → Nat

structure Server where
  port : Ubx.Tty.Port := { isOpen := true, baud := 115200 }
  now : Nat := 0
  j : Nat := 0                  -- reads made
  k : Nat := 0                  -- writes made
  seen : List Nat := []         -- ghost: every byte received so far
  flushed : Nat := 0            -- ghost: calls of reset_input_buffer()
deriving Inhabited

abbrev Res (ρ : Type) := Except Py.Abort ρ × Server

def finish {σ ρ : Type} (proj : σ → Server) (dflt : ρ) : Py.Ctl σ ρ → Res ρ
  | .next s => (.ok dflt, proj s)
  | .brk s => (.ok dflt, proj s)
  | .ret r s => (.ok r, proj s)
  | .abort a s => (.error a, proj s)

/-- `time.time()` -/
def timeNow (self : Server) : Nat := self.now

/-- `self.serial_port.read(1)`: `[]` when the read timed out -/
def read (env : Env) (self : Server) : List Nat × Server :=
  (match (env.rd self.j).2 with | some d => [d] | none => [],
   { self with now := self.now + Ubx.Tty.tick (env.rd self.j).1, j := self.j + 1,
               seen := self.seen ++ (match (env.rd self.j).2 with | some d => [d] | none => []) })

/-- `self.serial_port.write(data)` -/
def write (env : Env) (self : Server) (_data : List Nat) : Nat × Server := (env.wr self.k, { self with k := self.k + 1 })

/-- `self.serial_port.reset_input_buffer()` -/
def resetInput (self : Server) : Server := { self with flushed := self.flushed + 1 }

/-- `self.serial_port.baudrate = b` -/
def setBaud (self : Server) (b : Nat) : Server :=
  { self with port := { self.port with baud := b, log := self.port.log ++ [("baudrate", b)] } }

end Py.Tty

import UbxModel.Model.Checksum
import UbxModel.Gen.Consts
/-! Model of `ubxlib/parser_ubx.py` — class `UbxParser`.
    One structure with the attributes of the Python object; one `match` arm per `_state_*` method.
    The `SYNC` arm models the repaired behaviour (stay in `SYNC` on a repeated `0xB5`). -/
namespace Ubx

/-- `UbxParser.State` -/
inductive St | init | sync | cls | id | len1 | len2 | data | crc1 | crc2
deriving DecidableEq, Repr

/-- `UbxCID` -/
structure Cid where
  cls : Nat
  id : Nat
deriving DecidableEq, Repr

/-- an element of `rx_queue`: `(cid, msg_data)` or the checksum-error marker `(crc_error_cid, None)` -/
inductive Packet
  | data (cid : Cid) (payload : List Nat)
  | crcError
deriving DecidableEq, Repr

structure Parser where
  st : St := .init
  msgClass : Nat := 0
  msgId : Nat := 0
  msgLen : Nat := 0
  ofs : Nat := 0
  msgData : List Nat := []
  cka : Nat := 0
  ckb : Nat := 0
  ck : Ck := Ck.zero
  queue : List Packet := []                 -- `rx_queue`
  filter : Option (List Cid) := none        -- `wait_cids`
  framesRx : Nat := 0
deriving DecidableEq, Repr

abbrev MAXLEN : Nat := Gen.maxMessageLength

/-- `_reset()` -/
def Parser.reset (p : Parser) : Parser :=
  { p with msgClass := 0, msgId := 0, msgLen := 0, msgData := [], cka := 0, ckb := 0, ofs := 0, ck := p.ck.reset }

/-- `self.wait_cids and cid in self.wait_cids` -/
def filterPasses (f : Option (List Cid)) (cid : Cid) : Bool :=
  match f with
  | none => false
  | some l => l.contains cid

def Parser.passes (p : Parser) (cid : Cid) : Bool := filterPasses p.filter cid

/-- `_process_byte(d)` -/
def Parser.step (p : Parser) (d : Nat) : Parser :=
  match p.st with
  | .init => if d = Gen.sync1 then { p with st := .sync } else p
  | .sync =>
      if d = Gen.sync2 then { p.reset with st := .cls }
      else if d = Gen.sync1 then p
      else { p with st := .init }
  | .cls => { p with msgClass := d, ck := p.ck.add d, st := .id }
  | .id => { p with msgId := d, ck := p.ck.add d, st := .len1 }
  | .len1 => { p with msgLen := d, ck := p.ck.add d, st := .len2 }
  | .len2 =>
      let len := p.msgLen + d * 256
      if len = 0 then { p with msgLen := len, ck := p.ck.add d, st := .crc1 }
      else if len > MAXLEN then { p with msgLen := len, ck := p.ck.add d, st := .init }
      else { p with msgLen := len, ck := p.ck.add d, ofs := 0, st := .data }
  | .data =>
      if p.ofs + 1 = p.msgLen then
        { p with msgData := p.msgData ++ [d], ck := p.ck.add d, ofs := p.ofs + 1, st := .crc1 }
      else
        { p with msgData := p.msgData ++ [d], ck := p.ck.add d, ofs := p.ofs + 1 }
  | .crc1 => { p with cka := d, st := .crc2 }
  | .crc2 =>
      if p.ck.a = p.cka ∧ p.ck.b = d then
        { p with ckb := d, st := .init, framesRx := p.framesRx + 1,
                 queue := if p.passes ⟨p.msgClass, p.msgId⟩
                          then p.queue ++ [.data ⟨p.msgClass, p.msgId⟩ p.msgData] else p.queue }
      else
        { p with ckb := d, st := .init, queue := p.queue ++ [.crcError] }

/-- `process(data)` -/
def Parser.process (p : Parser) (bs : List Nat) : Parser := bs.foldl Parser.step p

/-- `UbxParser(crc_error_cid)` followed by `set_filters` (or not) -/
def Parser.fresh (f : Option (List Cid)) : Parser := { filter := f }

/-- `restart()` -/
def Parser.restart (p : Parser) : Parser := { p with st := .init }

/-- `set_filter(cid)` / `set_filters(cids)` -/
def Parser.setFilter (p : Parser) (cid : Cid) : Parser := { p with filter := some [cid] }
def Parser.setFilters (p : Parser) (cids : List Cid) : Parser := { p with filter := some cids }

/-- `empty_queue()` -/
def Parser.emptyQueue (p : Parser) : Parser := { p with queue := [] }

/-- `packet()`: `none` is the `(None, None)` sentinel -/
def Parser.packet (p : Parser) : Option Packet × Parser :=
  match p.queue with
  | [] => (none, p)
  | x :: xs => (some x, { p with queue := xs })

end Ubx

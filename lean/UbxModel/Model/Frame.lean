import UbxModel.Model.Checksum
import UbxModel.Gen.Consts
/-! Model of `ubxlib/frame.py` — `UbxFrame.to_bytes()` and `_calc_checksum()`.
    (`pack`/`unpack`/`construct` work on the field container and are modelled in `Model/Fields`.) -/
namespace Ubx

structure Frame where
  cls : Nat                 -- `CID.cls`
  id : Nat                  -- `CID.id`
  data : List Nat := []     -- `self.data`
  ck : Ck := Ck.zero        -- `self.checksum`
  cka : Nat := 0            -- `self.cka` / `self.ckb`, set by `_calc_checksum`
  ckb : Nat := 0
deriving DecidableEq, Repr

/-- `_calc_checksum()` -/
def Frame.calcChecksum (f : Frame) : Frame :=
  let c := f.ck.reset
  let c := c.add f.cls
  let c := c.add f.id
  let length := f.data.length
  let c := c.add ((length >>> 0) &&& 0xFF)
  let c := c.add ((length >>> 8) &&& 0xFF)
  let c := c.addAll f.data
  { f with ck := c, cka := c.value.1, ckb := c.value.2 }

/-- `to_bytes()`; returns the (mutated) frame object and the message -/
def Frame.toBytes (f : Frame) : Frame × List Nat :=
  let f := f.calcChecksum
  let length := f.data.length
  let msg := [Gen.sync1, Gen.sync2, f.cls, f.id, (length >>> 0) &&& 0xFF, (length >>> 8) &&& 0xFF]
  (f, msg ++ f.data ++ [f.cka, f.ckb])

end Ubx

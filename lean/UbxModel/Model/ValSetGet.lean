import UbxModel.Model.CfgKeys
import UbxModel.Model.Fields
/-! Model of `ubxlib/ubx_cfg_valset.py` (`UbxCfgValSetAction`) and `ubxlib/ubx_cfg_valget.py`
    (`UbxCfgValGetPoll`, `UbxCfgValGet.unpack`). -/
namespace Ubx
variable [KeyTable]

/-- `Fields.pack()` over a list of `CfgKeyData` items: the first failing item's exception -/
def packItems : List CfgItem → Except Exc (List Nat)
  | [] => .ok []
  | c :: rest => do
      let b ← c.pack
      let more ← packItems rest
      pure (b ++ more)

/-- `UbxCfgValSetAction(key_values).pack()`: `version = 0`, `layer = LAYER_RAM_MASK = 1`, `res0 = res1 = 0`,
    then the items in the order given -/
def valsetPayload (items : List CfgItem) : Except Exc (List Nat) := do
  let b ← packItems items
  pure ([0, 1, 0, 0] ++ b)

/-- `UbxCfgValGetPoll(keys).pack()`: `version = 0`, `layer = LAYER_RAM = 0`, `position = 0` (U2), then the
    keys as `U4` in order; a key outside 0..2³²−1 is `struct.error` -/
def valgetPollPayload (keys : List Int) : Except Exc (List Nat) := do
  let ks ← keys.mapM (packU 4)
  pure ([0, 0, 0, 0] ++ ks.flatten)

/-- the loop of `UbxCfgValGet.unpack`: `while len(work_data) >= 4:` decode one key/value pair -/
def valgetItems (fuel : Nat) (data : List Nat) : Except Exc (List CfgItem) :=
  match fuel with
  | 0 => .ok []
  | fuel + 1 =>
    if data.length < 4 then .ok []
    else do
      let (c, n) ← CfgItem.unpack data
      let rest ← valgetItems fuel (data.drop n)
      pure (c :: rest)

/-- `UbxCfgValGet.construct(payload)` → (version, layer, position, items); the header is `U1 U1 U2` -/
def valgetDecode (payload : List Nat) : Except Exc (Int × Int × Int × List CfgItem) := do
  let v ← unpackU 1 payload
  let l ← unpackU 1 (payload.drop 1)
  let p ← unpackU 2 (payload.drop 2)
  let items ← valgetItems payload.length (payload.drop 4)     -- every pair consumes ≥ 5 bytes: fuel suffices
  pure (v, l, p, items)

end Ubx

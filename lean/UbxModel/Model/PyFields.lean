import UbxModel.Model.PyFactory
/-! What the source-level translation of the field container's bookkeeping (`tools/pysrc2lean_fields.py` → `Gen/SrcFields.lean`) is
    written over: the dict of Model/PyFactory.lean with `in`, an item as the container sees it, the two attributes of a `Fields`. -/
namespace Py

/-- `k in d` -/
def Dict.contains {κ ν : Type} [DecidableEq κ] : Dict κ ν → κ → Bool
  | [], _ => false
  | (k', _) :: rest, k => if k' = k then true else Dict.contains rest k

namespace Fields

/-- an item as the container sees it: its name, its ordinal, and a tag standing for everything else about the object -/
structure Item where
  name : String
  order : Int
  tag : Nat
  value : Int := 0
deriving DecidableEq, Repr

/-- a `Fields` object -/
structure St where
  _fields : Dict String Item
  _next : Int

/-- what an instance attribute of a `Fields` object holds: the dict of fields, or an ordinary value -/
inductive Attr
  | fields (d : Dict String Item)
  | val (v : Int)

/-- `self.__dict__` -/
abbrev ObjDict := Dict String Attr

/-- `name in x` / `x[name]` where `x` should be the dict of fields: anything else has no such operations (`TypeError`) -/
def asFields : Attr → Except Ubx.Exc (Dict String Item)
  | .fields d => .ok d
  | .val _ => .error .typeError

/-- `object.__setattr__(self, name, value)`: an instance attribute -/
def objectSetattr (d : ObjDict) (name : String) (value : Int) : ObjDict := Dict.setitem d name (.val value)

/-- `object.__getattribute__(self, name)` for instance attributes: `AttributeError` when there is none (class attributes and methods
    are not modelled) -/
def objectGetattr (d : ObjDict) (name : String) : Except Ubx.Exc Attr :=
  match Dict.getitem d name with
  | .ok a => .ok a
  | .error _ => .error .attributeError

end Fields
end Py

import UbxModel.Model.PyFactory
/-! What the source-level translation of the field container's bookkeeping (`tools/pysrc2lean_fields.py` → `Gen/SrcFields.lean`) is
    written over: the dict of Model/PyFactory.lean with `in`, an item as the container sees it, the two attributes of a `Fields`. -/
namespace Py

/-- `k in d` -/
def Dict.contains {κ ν : Type} [DecidableEq κ] : Dict κ ν → κ → Bool
  | [], _ => false
  | (k', _) :: rest, k => if k' = k then true else Dict.contains rest k

namespace Fields

/-- an item as the container sees it: its name, its ordinal, and a tag standing for everything else about the object -/
structure Item where
  name : String
  order : Int
  tag : Nat
deriving DecidableEq, Repr

/-- a `Fields` object -/
structure St where
  _fields : Dict String Item
  _next : Int

end Fields
end Py

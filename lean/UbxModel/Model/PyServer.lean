import UbxModel.Model.Server
import UbxModel.Model.PyPrims
/-! What the source-level translation of `ubxlib/server_base.py` (`tools/pysrc2lean.py` → `Gen/SrcServer.lean`) is
    written over: statement blocks that may fall through, `break`, `return` or raise (`Ctl`), `while` loops run with an
    explicit number of iterations at most (`whileFuel`; running out is an outcome of its own, never a default),
    `for … in range(n)` (`forRange`), the server object with the ghost log of the back end (`Server`), and the back-end
    interface as an environment (`transmit`, `receive`, `flushInput`, `recover`, `timeNow`).

    Modelled, not translated: the four back-end methods and the clock (environment `Ubx.Env`), `FrameFactory`
    (`Ubx.Registry`: `register` is dict assignment, `build_with_data` raises `KeyError` for an unknown class/id and one of
    `ValueError` / `struct.error` / `AssertionError` for a payload the class cannot decode), `frame.pack()` (the request
    carries the payload that `pack()` produced), `to_bytes()` (the model's, which `Proofs/SrcEquiv/UbxFrame` ties to the
    source), clock arithmetic in ticks of one millisecond (`x / 1000.0` seconds = `x` ticks, §4.2 of DESIGN.md). -/
namespace Py
open Ubx

/-- how a request ends when it does not return normally -/
inductive Abort
  | exc (e : Exc)        -- an exception leaves the function
  | outOfFuel            -- a `while` loop did not end within the iterations it was given
deriving DecidableEq, Repr

/-- what a block of statements ends in -/
inductive Ctl (σ ρ : Type)
  | next (s : σ)                 -- fell off the end
  | brk (s : σ)                  -- `break`
  | ret (r : ρ) (s : σ)          -- `return r`
  | abort (a : Abort) (s : σ)

/-- sequencing: the rest of the block runs only after a block that fell off its end -/
@[inline] def Ctl.bind {σ ρ : Type} (c : Ctl σ ρ) (k : σ → Ctl σ ρ) : Ctl σ ρ :=
  match c with
  | .next s => k s
  | .brk s => .brk s
  | .ret r s => .ret r s
  | .abort a s => .abort a s

/-- `while c: body`, at most `fuel` iterations -/
def whileFuel {σ ρ : Type} : Nat → (σ → Bool) → (σ → Ctl σ ρ) → σ → Ctl σ ρ
  | 0, c, _, s => if c s then .abort .outOfFuel s else .next s
  | n + 1, c, b, s =>
    if c s then
      match b s with
      | .next s' => whileFuel n c b s'
      | .brk s' => .next s'
      | .ret r s' => .ret r s'
      | .abort a s' => .abort a s'
    else .next s

theorem whileFuel_step {σ ρ : Type} (n : Nat) (c : σ → Bool) (b : σ → Ctl σ ρ) (s : σ) (h : c s = true) :
    whileFuel (n + 1) c b s =
      (match b s with
       | .next s' => whileFuel n c b s'
       | .brk s' => .next s'
       | .ret r s' => .ret r s'
       | .abort a s' => .abort a s') := by
  rw [whileFuel, if_pos h]

theorem whileFuel_done {σ ρ : Type} (n : Nat) (c : σ → Bool) (b : σ → Ctl σ ρ) (s : σ) (h : c s = false) :
    whileFuel n c b s = .next s := by
  cases n <;> simp [whileFuel, h]

/-- `for i in range(start, start + n): body` -/
def forRangeFrom {σ ρ : Type} (body : Nat → σ → Ctl σ ρ) : Nat → Nat → σ → Ctl σ ρ
  | _, 0, s => .next s
  | i, n + 1, s =>
    match body i s with
    | .next s' => forRangeFrom body (i + 1) n s'
    | .brk s' => .next s'
    | .ret r s' => .ret r s'
    | .abort a s' => .abort a s'

/-- `for i in range(n): body` -/
def forRange {σ ρ : Type} (n : Nat) (body : Nat → σ → Ctl σ ρ) (s : σ) : Ctl σ ρ := forRangeFrom body 0 n s

/-- the server object: the attributes `poll`/`set`/`set_mga` use, and the ghost log of the back end -/
structure Server where
  parser : Parser := {}
  reg : Registry := Registry.base       -- `FrameFactory.getInstance()`: one registry per process
  retries : Nat := 2                    -- `max_retries`
  delay : Nat := 1800                   -- `retry_delay_in_ms`
  lg : Log := {}
deriving Inhabited

/-- result of a translated method: what it returned (or how it was left), and the object afterwards -/
abbrev Res (ρ : Type) := Except Abort ρ × Server

/-- a function body ends: falling off the end returns `none` -/
def finish {σ ρ : Type} (proj : σ → Server) (dflt : ρ) : Ctl σ ρ → Res ρ
  | .next s => (.ok dflt, proj s)
  | .brk s => (.ok dflt, proj s)          -- cannot happen: `break` outside a loop is a syntax error
  | .ret r s => (.ok r, proj s)
  | .abort a s => (.error a, proj s)

/-! ### the back end and the clock -/

def flushInput (self : Server) : Server :=
  { self with lg := { self.lg with calls := self.lg.calls ++ [.flush] } }

def transmit (env : Env) (self : Server) (bytes : List Nat) : Bool × Server :=
  (env.tx self.lg.sent.length,
   { self with lg := { self.lg with sent := self.lg.sent ++ [bytes], calls := self.lg.calls ++ [.tx bytes] } })

/-- `_receive()`: `[]` stands for `None` (and for an empty read: both are falsy) -/
def receive (env : Env) (self : Server) : List Nat × Server :=
  ((env.rx self.lg.nRx).2,
   { self with lg := { self.lg with now := self.lg.now + tick (env.rx self.lg.nRx).1, nRx := self.lg.nRx + 1,
                                     calls := self.lg.calls ++ [.rx] } })

def recover (self : Server) : Server :=
  { self with lg := { self.lg with calls := self.lg.calls ++ [.recover] } }

/-- `time.time()` -/
def timeNow (self : Server) : Nat := self.lg.now

/-! ### frames, the factory, the queue -/

/-- `ubx_message.to_bytes()` of a request frame -/
def toBytes (req : Req) : List Nat := req.wire

/-- `frame_factory.register(cls)` for the response class of a poll: keyed by the class's `CID`, which is the poll's -/
def register (self : Server) (req : Req) : Server := { self with reg := self.reg.register req.cid req.response }

/-- `ff.build_with_data(cid, data)` -/
def buildWithData (reg : Registry) (cid : Cid) (pl : List Nat) : Except Exc RFrame :=
  match reg.find? (fun e => e.1 = cid) with
  | some (_, ci) => if ci.decodable pl then .ok ⟨cid, ci.tag, pl⟩ else .error .valueError
  | none => .error .keyError

/-- is the exception one of those an `except` clause names?  The three ways a payload can fail to decode
    (`ValueError`, `struct.error`, `AssertionError`) are one kind in the model of the registry. -/
def excIn (e : Exc) (names : List String) : Bool :=
  match e with
  | .keyError => names.contains "KeyError"
  | .valueError => names.contains "ValueError" && names.contains "struct.error" && names.contains "AssertionError"
  | .structError => names.contains "struct.error"
  | .assertionError => names.contains "AssertionError"
  | .indexError => names.contains "IndexError"
  | _ => false

/-- `res.f.<name>` of a decoded frame whose class has the field table `t` -/
def field (t : Table) (f : RFrame) (name : String) : Option Int :=
  match t.decode f.payload with
  | .ok (vs, _) =>
      match (t.map (·.1)).idxOf? name with
      | some i => match vs[i]? with
                  | some (.int v) => some v
                  | _ => none
      | none => none
  | .error _ => none

/-- `UbxCID(a, b) == cid` for field values `a`, `b` -/
def cidOfFieldsEq (a b : Option Int) (cid : Cid) : Bool :=
  match a, b with
  | some a, some b => a == (cid.cls : Int) && b == (cid.id : Int)
  | _, _ => false

/-- `cid, data = self.parser.packet()`; the pair `(None, None)` is `none` -/
def packet (self : Server) : Option Packet × Server :=
  match self.parser.queue with
  | [] => (none, self)
  | x :: xs => (some x, { self with parser := { self.parser with queue := xs } })

/-- `cid != self.cid_crc_error` for a packet taken from the queue.  (A frame of class 0x00, id 0x02 would be taken for
    the marker by the code; no request of the library waits for that class/id, and the model keeps the two apart.) -/
def notCrcMarker : Packet → Bool
  | .crcError => false
  | .data _ _ => true

end Py

/-! Model of `ubxlib/parser_nmea.py` — class `NmeaParser`.
    (`msg_data`, the text kept for the debug log only, is not modelled.)
    `restart()` models the repaired method (`State.WAIT_SYNC`). -/
namespace Nmea

inductive St | waitSync | data | chk1 | chk2 | lineEnd
deriving DecidableEq, Repr

structure P where
  st : St := .waitSync
  cs : Nat := 0        -- self.checksum
  acc : Nat := 0       -- self.checksum_data
  framesRx : Nat := 0
deriving DecidableEq, Repr

abbrev DOLLAR : Nat := 36
abbrev STAR : Nat := 42
abbrev NL : Nat := 10

/-- `_to_bin`: value of a hex digit, or none -/
def toBin (c : Nat) : Option Nat :=
  if 48 ≤ c ∧ c ≤ 57 then some (c - 48)
  else if 97 ≤ c ∧ c ≤ 102 then some (c - 87)
  else if 65 ≤ c ∧ c ≤ 70 then some (c - 55)
  else none

def P.step (p : P) (c : Nat) : P :=
  if c = DOLLAR then { p with st := .data, cs := 0, acc := 0 }
  else match p.st with
    | .waitSync => p
    | .data => if c = STAR then { p with st := .chk1 } else { p with acc := p.acc ^^^ c }
    | .chk1 => match toBin c with
        | some v => { p with cs := v <<< 4, st := .chk2 }
        | none => { p with st := .waitSync }
    | .chk2 => match toBin c with
        | some v =>
            if p.cs + v = p.acc then { p with cs := p.cs + v, st := .lineEnd, framesRx := p.framesRx + 1 }
            else { p with cs := p.cs + v, st := .lineEnd }
        | none => { p with st := .waitSync }
    | .lineEnd => if c = NL then { p with st := .waitSync } else p

def P.process (p : P) (s : List Nat) : P := s.foldl P.step p


/-- `NmeaParser()` -/
def P.fresh : P := {}

/-- `restart()` -/
def P.restart (p : P) : P := { p with st := .waitSync }

end Nmea

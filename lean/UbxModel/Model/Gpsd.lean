import UbxModel.Model.Codec
/-! Model of `ubxlib/server.py` — the gpsd handshake (`_parse_gpsd_msg`, `_parse_version`,
    `_parse_devices`) in the repaired form (non-objects and nesting errors are ignored), and the
    command framing of `_transmit`.  `bytes.decode`, `str.splitlines` and `json.loads` are trusted
    stdlib: a received chunk is presented as what they make of it. -/
namespace Ubx.Gpsd

/-- a decoded JSON value; objects as key/value lists (a later binding of a key wins, as in `dict`) -/
inductive Json
  | null | bool (b : Bool) | num | str (s : String) | arr (xs : List Json) | obj (kvs : List (String × Json))
deriving Repr

/-- `d[key]` on a Python dict built from the pairs in order -/
def Json.get (kvs : List (String × Json)) (key : String) : Option Json :=
  (kvs.reverse.find? (fun kv => kv.1 == key)).map (·.2)

/-- what `json.loads(line)` did -/
inductive Line
  | notJson           -- `JSONDecodeError`
  | tooDeep           -- `RecursionError`
  | value (j : Json)

/-- what `data.decode().splitlines()` and `json.loads` made of a chunk -/
inductive Chunk
  | undecodable       -- `UnicodeDecodeError`: the whole chunk is ignored
  | lines (ls : List Line)

structure State where
  requested : Option String     -- `device_name` (`None` or `''` → use the first device)
  selected : Option String := none
  enabled : Bool := false
  release : Option String := none
deriving Repr

def isStr : Json → Option String
  | .str s => some s
  | _ => none

/-- `_parse_devices(data)`: `KeyError` / `TypeError` for ill-formed objects -/
def parseDevices (st : State) (kvs : List (String × Json)) : Except Exc State :=
  match Json.get kvs "devices" with
  | none => .error .keyError
  | some (.arr devs) =>
      let rec go (st : State) : List Json → Except Exc State
        | [] => .ok st
        | .obj d :: rest =>
            match Json.get d "path" with
            | none => .error .keyError
            | some p =>
                match isStr p with
                | none => .error .typeError      -- outside the well-formedness assumption
                | some name =>
                    match st.requested with
                    | some want =>
                        if want = name then .ok { st with selected := some want, enabled := true }
                        else go st rest
                    | none => .ok { st with selected := some name, enabled := true }
        | _ :: _ => .error .typeError
      go st devs
  | some _ => .error .typeError

/-- one line of `_parse_gpsd_msg` -/
def parseLine (st : State) : Line → Except Exc State
  | .notJson => .ok st
  | .tooDeep => .ok st
  | .value (.obj kvs) =>
      match Json.get kvs "class" with
      | some (.str "VERSION") =>
          match Json.get kvs "release" with
          | none => .error .keyError
          | some r => .ok { st with release := isStr r }
      | some (.str "DEVICES") => parseDevices st kvs
      | _ => .ok st
  | .value _ => .ok st            -- scalars, strings, arrays: not a dict

/-- `_parse_gpsd_msg(data)` -/
def parseChunk (st : State) : Chunk → Except Exc State
  | .undecodable => .ok st
  | .lines ls => ls.foldlM parseLine st

/-- `GnssUBlox(device_name)`: an empty name means "not given" -/
def State.init (deviceName : Option String) : State :=
  { requested := match deviceName with | some "" => none | d => d }

end Ubx.Gpsd

namespace Ubx.Gpsd

/-- `binascii.hexlify`: two lower-case hex digits per byte, as ASCII codes -/
def hexDigit (n : Nat) : Nat := if n < 10 then 48 + n else 87 + n
def hexlify : List Nat → List Nat
  | [] => []
  | b :: bs => hexDigit (b / 16) :: hexDigit (b % 16) :: hexlify bs

def unhexDigit (c : Nat) : Nat := if c < 58 then c - 48 else c - 87
def unhexlify : List Nat → List Nat
  | a :: b :: rest => (unhexDigit a * 16 + unhexDigit b) :: unhexlify rest
  | _ => []

/-- `cmd_header + hexlify(data)` with `cmd_header = f'&{selected_device}='` -/
def command (device : List Nat) (data : List Nat) : List Nat := [38] ++ device ++ [61] ++ hexlify data

/-- does `hay` contain `needle`? (`'OK' in response`) -/
def contains (hay needle : List Nat) : Bool :=
  match hay with
  | [] => needle.isEmpty
  | _ :: t => needle.isPrefixOf hay || contains t needle

/-- `_enable()`: read chunk after chunk until one leaves the connection ready (`none`: the chunks ran out first — the
    code would go on waiting, it has no time-out there) -/
def enable (st : State) : List Chunk → Except Exc (Option State)
  | [] => .ok none
  | c :: rest =>
      match parseChunk st c with
      | .error e => .error e
      | .ok st' => if st'.enabled then .ok (some st') else enable st' rest

/-- `cmd_header = f'&{self.selected_device}='`, as bytes -/
def cmdHeader (st : State) : List Nat := [38] ++ ((st.selected.getD "None").toList.map Char.toNat) ++ [61]

/-- `setup()`: the handshake from the state after `__init__`, then the command header -/
def setup (deviceName : Option String) (chunks : List Chunk) : Except Exc (Option (State × List Nat)) :=
  (enable (State.init deviceName) chunks).map fun r => r.map fun st => (st, cmdHeader st)

/-- a command sent after `setup()`: `cmd_header + hexlify(data)` -/
def commandAfterSetup (hdr : List Nat) (data : List Nat) : List Nat := hdr ++ hexlify data

/-- outcome of `_transmit`: the reply read from the control socket, or a socket error before that -/
inductive Reply
  | socketError
  | data (ascii : List Nat)

/-- `_transmit(data)` → success flag -/
def transmitOk : Reply → Bool
  | .socketError => false
  | .data r => contains r [79, 75] || contains r [65, 67, 75]      -- 'OK' / 'ACK'

end Ubx.Gpsd

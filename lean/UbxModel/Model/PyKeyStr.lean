import UbxModel.Model.RenderKeys
import UbxModel.Gen.Src
/-! What the source-level translation of `CfgKeyData.__str__` (`tools/pysrc2lean_keystr.py` → `Gen/SrcKeyStr.lean`) is written over, beyond
    the model's `hexInt` / `keyName` (Model/RenderKeys.lean) and the generated `_build_header` (Gen/Src.lean). -/
namespace Py.KeyStr

/-- an `int` handed to `_build_header`, which only looks at its low 8 / 12 bits (`& 0xff`, `& 0xfff`): its low 16 bits, two's complement
    for a negative one -/
def lowBits (v : Int) : Nat := (v % 65536).toNat

end Py.KeyStr

/-! Model of the convenience setters: `UbxCfgGnss.enable_gnss/disable_gnss/_find_entry/gps_glonass/
    gps_galileo_beidou` and `X4_Flags.enable/disable` (repaired: the block is chosen by position),
    `UbxCfgRate.set_rate_in_hz`, `UbxCfgCfgAction.save/reset`, `UbxCfgRstAction.*`,
    `UbxCfgEsflaSet.set`, `UbxCfgEsfla.lever_arm`, `UbxMgaIniTimeUtc.set_datetime`, `UbxUpdSosAction.*`. -/
namespace Ubx

/-- one configuration block of a decoded UBX-CFG-GNSS frame -/
structure GnssBlock where
  gnssId : Nat
  resTrkCh : Nat
  maxTrkCh : Nat
  flags : Nat
deriving DecidableEq, Repr

/-- `_find_entry(system)`: index of the first block with that `gnssId`, or `None` -/
def findEntry (blocks : List GnssBlock) (system : Nat) : Option Nat :=
  blocks.findIdx? (fun b => b.gnssId == system)

/-- `X4_Flags.enable()` / `disable()`: `value |= 0x1` / `value &= ~0x1` -/
def flagsEnable (v : Nat) : Nat := v ||| 0x1
def flagsDisable (v : Nat) : Nat := v - v % 2        -- `v & ~1` for a non-negative Python int

def modifyAt (blocks : List GnssBlock) (i : Nat) (f : Nat → Nat) : List GnssBlock :=
  blocks.modify i (fun b => { b with flags := f b.flags })

/-- `enable_gnss(system)` / `disable_gnss(system)` -/
def enableGnss (blocks : List GnssBlock) (system : Nat) : List GnssBlock :=
  match findEntry blocks system with
  | some pos => modifyAt blocks pos flagsEnable
  | none => blocks

def disableGnss (blocks : List GnssBlock) (system : Nat) : List GnssBlock :=
  match findEntry blocks system with
  | some pos => modifyAt blocks pos flagsDisable
  | none => blocks

def GNSS_GPS := 0
def GNSS_SBAS := 1
def GNSS_Galileo := 2
def GNSS_BeiDou := 3
def GNSS_IMES := 4
def GNSS_QZSS := 5
def GNSS_GLONASS := 6
def GNSS_IRNSS := 7

/-- `gps_glonass()` — the literal sequence of calls -/
def gpsGlonass (b : List GnssBlock) : List GnssBlock :=
  let b := enableGnss b GNSS_GPS
  let b := enableGnss b GNSS_SBAS
  let b := enableGnss b GNSS_GLONASS
  let b := disableGnss b GNSS_Galileo
  let b := disableGnss b GNSS_BeiDou
  let b := disableGnss b GNSS_IMES
  disableGnss b GNSS_QZSS

/-- `gps_galileo_beidou()` -/
def gpsGalileoBeidou (b : List GnssBlock) : List GnssBlock :=
  let b := enableGnss b GNSS_GPS
  let b := enableGnss b GNSS_SBAS
  let b := enableGnss b GNSS_Galileo
  let b := enableGnss b GNSS_BeiDou
  let b := disableGnss b GNSS_IMES
  let b := disableGnss b GNSS_QZSS
  disableGnss b GNSS_GLONASS

/-- `set_rate_in_hz(rate)` → (measRate, navRate); `int(1000 / rate)` -/
def setRateInHz (rate : Nat) : Nat × Nat := (1000 / rate, 1)

/-- the same for a rate that is no whole number - `num/den` Hz given as a float with an exact binary value, a `Fraction`, a
    `Decimal`: `int(1000 / rate)` truncates the quotient -/
def setRateQ (num den : Nat) : Nat × Nat := (1000 * den / num, 1)

/-- `UbxCfgCfgAction.save(settings)` / `reset(settings)` → (clearMask, saveMask, loadMask) -/
def cfgSave (settings : Nat) : Nat × Nat × Nat := (0, settings, 0)
def cfgReset (settings : Nat) : Nat × Nat × Nat := (settings, 0, settings)

/-- `UbxCfgRstAction` helpers → (navBbrMask, resetMode) -/
def rstWarmStart : Nat × Nat := (0x0001, 0x01)
def rstColdStart : Nat × Nat := (0xFFFF, 0x01)
def rstStart : Nat × Nat := (0x0000, 0x09)
def rstStop : Nat × Nat := (0x0000, 0x08)

/-- `UbxCfgEsfla.lever_arm(armType)`: first block of that type -/
def leverArm (arms : List (Nat × Int × Int × Int)) (armType : Nat) : Option (Int × Int × Int) :=
  (arms.find? (fun a => a.1 == armType)).map (·.2)

/-- `UbxUpdSosAction.backup()` / `clear()` → `cmd` -/
def sosBackup : Nat := 0
def sosClear : Nat := 1

/-- `UbxMgaIniTimeUtc.set_datetime(dt)` → the field values in table order
    (type, version, ref, leapSecs, year, month, day, hour, minute, second, res1, ns, tAccS, res2, tAccNs) -/
def setDatetime (year month day hour minute second : Nat) : List Int :=
  [0x10, 0x00, 0x00, -128, year, month, day, hour, minute, second, 0, 0, 10, 0, 0]

/-- `UbxCfgEsflaSet.set(type, x, y, z)`: the four `assert`s, then the field values
    (version, numConfigs, res1, leverArmType, res2, leverArmX, leverArmY, leverArmZ) -/
def esflaSet (ty : Int) (x y z : Int) : Option (List Int) :=
  if ty ≤ 1 ∧ -1000 ≤ x ∧ x ≤ 1000 ∧ -1000 ≤ y ∧ y ≤ 1000 ∧ -1000 ≤ z ∧ z ≤ 1000 then
    some [0, 1, 0, ty, 0, x, y, z]
  else none            -- AssertionError

end Ubx

import UbxModel.Model.ParserUbx
import UbxModel.Model.Frame
import UbxModel.Model.Fields
import UbxModel.Gen.Layouts
/-! Model of `ubxlib/server_base.py` — `UbxServerBase_`: `poll`, `set`, `set_mga`, `fire_and_forget`,
    `_send`, `_wait` and the three `_check_*` helpers, in the repaired form (one deadline per wait
    state, the queue drained after every receive, undecodable frames skipped).

    The back end (`_transmit`, `_receive`, `_flush_input`, `_recover`) and the clock are an
    environment oracle; the calls made are logged in order. -/
namespace Ubx

/-- the receiver and the clock, as seen through the back-end interface -/
structure Env where
  /-- result of the `k`-th `_transmit()` (k = number of transmissions made before it) -/
  tx : Nat → Bool
  /-- the `j`-th `_receive()`: how many clock ticks it takes and what it returns (`[]` = `None`) -/
  rx : Nat → Nat × List Nat

inductive Call
  | flush | tx (bytes : List Nat) | rx | recover
deriving DecidableEq, Repr

/-- ghost state: clock, number of receive calls, everything transmitted, the back-end calls in order -/
structure Log where
  now : Nat := 0
  nRx : Nat := 0
  sent : List (List Nat) := []
  calls : List Call := []
deriving Repr

/-- a frame object built by the factory -/
structure RFrame where
  cid : Cid
  tag : String            -- the class registered for `cid`
  payload : List Nat
deriving DecidableEq, Repr

/-- `FrameFactory`: class/id ↦ (class name, can `construct(data)` decode this payload?) -/
structure ClassInfo where
  tag : String
  decodable : List Nat → Bool

abbrev Registry := List (Cid × ClassInfo)

/-- `register(frame_class)`: later registrations replace earlier ones (dict assignment) -/
def Registry.register (r : Registry) (cid : Cid) (ci : ClassInfo) : Registry :=
  (cid, ci) :: r.filter (fun e => e.1 ≠ cid)

/-- `build_with_data(cid, data)`: `none` when not registered (`KeyError`) or not decodable -/
def Registry.build (r : Registry) (cid : Cid) (pl : List Nat) : Option RFrame :=
  match r.find? (fun e => e.1 = cid) with
  | some (_, ci) => if ci.decodable pl then some ⟨cid, ci.tag, pl⟩ else none
  | none => none

def ackCid : Cid := ⟨0x05, 0x01⟩
def nakCid : Cid := ⟨0x05, 0x00⟩
def mgaAckCid : Cid := ⟨0x13, 0x60⟩
def CLASS_CFG : Nat := 0x06

def tableDecodable (t : Table) (pl : List Nat) : Bool :=
  match t.decode pl with
  | .ok _ => true
  | .error _ => false

/-- what `setup()` registers -/
def Registry.base : Registry :=
  [(ackCid, ⟨"UbxAckAck", tableDecodable Gen.UbxAckAck⟩), (nakCid, ⟨"UbxAckNak", tableDecodable Gen.UbxAckNak⟩),
   (mgaAckCid, ⟨"UbxMgaAckData0", tableDecodable Gen.UbxMgaAckData0⟩)]

structure Srv where
  parser : Parser := {}
  reg : Registry := Registry.base
  retries : Nat := 2          -- `max_retries`
  delay : Nat := 1800         -- `retry_delay_in_ms`, in clock ticks

/-- a request frame: class/id, the payload `pack()` produced, and (for polls) the response class -/
structure Req where
  cid : Cid
  payload : List Nat
  response : ClassInfo := ⟨"", fun _ => true⟩

def Req.wire (r : Req) : List Nat := (Frame.toBytes { cls := r.cid.cls, id := r.cid.id, data := r.payload }).2

/-- every receive takes at least one tick (environment assumption, made true by construction) -/
def tick (dt : Nat) : Nat := max 1 dt

/-- take packets from the queue until one can be built: error markers, unregistered class/ids and
    undecodable payloads are skipped -/
def drain (reg : Registry) : List Packet → Option RFrame × List Packet
  | [] => (none, [])
  | .crcError :: q => drain reg q
  | .data cid pl :: q =>
      match reg.build cid pl with
      | some f => (some f, q)
      | none => drain reg q

/-- `_wait(time_end)` -/
def wait (env : Env) (reg : Registry) (deadline : Nat) (p : Parser) (lg : Log) :
    Option RFrame × Parser × Log :=
  if lg.now < deadline then
    let r := env.rx lg.nRx
    let lg' : Log := { lg with now := lg.now + tick r.1, nRx := lg.nRx + 1, calls := lg.calls ++ [.rx] }
    let p1 := if r.2.isEmpty then p else p.process r.2
    match drain reg p1.queue with
    | (some f, q) => (some f, { p1 with queue := q }, lg')
    | (none, q) => wait env reg deadline { p1 with queue := q } lg'
  else (none, p, lg)
termination_by deadline - lg.now
decreasing_by simp only [tick]; omega

/-- `_flush_input()` then `_send(frame)` -/
def flushSend (env : Env) (lg : Log) (bytes : List Nat) : Bool × Log :=
  (env.tx lg.sent.length, { lg with sent := lg.sent ++ [bytes], calls := lg.calls ++ [.flush, .tx bytes] })

def recover (lg : Log) : Log := { lg with calls := lg.calls ++ [.recover] }

inductive AckCheck | ack | nak | other
deriving DecidableEq, Repr

/-- the `clsId` / `msgId` fields of a decoded ACK frame -/
def ackNames (f : RFrame) : Option (Int × Int) :=
  match Gen.UbxAckAck.decode f.payload with
  | .ok ([.int a, .int b], _) => some (a, b)
  | _ => none

/-- `_check_ack_nak(request, res)` -/
def checkAckNak (req : Cid) (f : RFrame) : AckCheck :=
  if f.cid = ackCid then
    (if ackNames f = some ((req.cls : Int), (req.id : Int)) then .ack else .other)
  else if f.cid = nakCid then .nak
  else .other

/-- `_check_mga(request, res)`: `res.f.type == 1` -/
def checkMga (f : RFrame) : Bool :=
  f.cid == mgaAckCid &&
    (match Gen.UbxMgaAckData0.decode f.payload with
     | .ok (.int t :: _, _) => t == 1
     | _ => false)

/-- the retry loop of `set()` -/
def setLoop (env : Env) (reg : Registry) (delay : Nat) (req : Req) :
    Nat → Parser → Log → Option RFrame × Parser × Log
  | 0, p, lg => (none, p, lg)
  | n + 1, p, lg =>
    let (ok, lg1) := flushSend env lg req.wire
    if ok then
      let p1 := p.emptyQueue.restart
      match wait env reg (lg1.now + delay) p1 lg1 with
      | (some f, p2, lg2) =>
          if checkAckNak req.cid f = .other then setLoop env reg delay req n p2 lg2
          else (some f, p2, lg2)
      | (none, p2, lg2) => setLoop env reg delay req n p2 (recover lg2)
    else setLoop env reg delay req n p lg1

/-- `set(frame)` -/
def Srv.set (s : Srv) (env : Env) (lg : Log) (req : Req) : Option RFrame × Srv × Log :=
  let p0 := s.parser.setFilters [ackCid, nakCid]
  let (r, p, lg') := setLoop env s.reg s.delay req (s.retries + 1) p0 lg
  (r, { s with parser := p }, lg')

/-- the retry loop of `set_mga()` -/
def mgaLoop (env : Env) (reg : Registry) (delay : Nat) (req : Req) :
    Nat → Parser → Log → Option RFrame × Parser × Log
  | 0, p, lg => (none, p, lg)
  | n + 1, p, lg =>
    let (ok, lg1) := flushSend env lg req.wire
    if ok then
      let p1 := p.emptyQueue.restart
      match wait env reg (lg1.now + delay) p1 lg1 with
      | (some f, p2, lg2) => if checkMga f then (some f, p2, lg2) else mgaLoop env reg delay req n p2 lg2
      | (none, p2, lg2) => mgaLoop env reg delay req n p2 (recover lg2)
    else mgaLoop env reg delay req n p lg1

/-- `set_mga(frame)` -/
def Srv.setMga (s : Srv) (env : Env) (lg : Log) (req : Req) : Option RFrame × Srv × Log :=
  let p0 := s.parser.setFilter mgaAckCid
  let (r, p, lg') := mgaLoop env s.reg s.delay req (s.retries + 1) p0 lg
  (r, { s with parser := p }, lg')

/-- `fire_and_forget(frame)`: pack and send once, no flush, no reading -/
def Srv.fireAndForget (s : Srv) (_env : Env) (lg : Log) (req : Req) : Srv × Log :=
  (s, { lg with sent := lg.sent ++ [req.wire], calls := lg.calls ++ [.tx req.wire] })

/-! ### poll -/

theorem wait_some_advances (env : Env) (reg : Registry) (deadline : Nat) (p : Parser) (lg : Log)
    (f : RFrame) (h : (wait env reg deadline p lg).1 = some f) :
    lg.now < (wait env reg deadline p lg).2.2.now ∧ lg.now < deadline := by
  fun_induction wait env reg deadline p lg with
  | case1 p lg hlt r lg' p1 f' q hd => exact ⟨by simp only [lg', tick]; omega, hlt⟩
  | case2 p lg hlt r lg' p1 q hd ih =>
    have := (ih h).1
    exact ⟨by simp only [lg', tick] at this ⊢; omega, hlt⟩
  | case3 p lg hnl => simp at h

/-- state 'wait-ack' of `poll()`: wait (with the deadline of this state) until the ACK-ACK that names
    the request arrives; NAKs, foreign ACKs and further responses are ignored -/
def pollWaitAck (env : Env) (reg : Registry) (req : Cid) (deadline : Nat) (p : Parser) (lg : Log) :
    Bool × Parser × Log :=
  match hw : wait env reg deadline p lg with
  | (some f, p', lg') =>
      if checkAckNak req f = .ack then (true, p', lg')
      else pollWaitAck env reg req deadline p' lg'
  | (none, p', lg') => (false, p', lg')
termination_by deadline - lg.now
decreasing_by
  have h1 : (wait env reg deadline p lg).1 = some f := by rw [hw]
  have h2 := wait_some_advances env reg deadline p lg f h1
  have h3 : (wait env reg deadline p lg).2.2 = lg' := by rw [hw]
  rw [h3] at h2
  omega

/-- state 'wait-response' of `poll()` followed, for CFG requests, by 'wait-ack' -/
def pollAttempt (env : Env) (reg : Registry) (req : Cid) (delay : Nat) (deadline : Nat) (p : Parser) (lg : Log) :
    Option RFrame × Parser × Log :=
  match hw : wait env reg deadline p lg with
  | (some f, p', lg') =>
      if f.cid = req then
        if req.cls = CLASS_CFG then
          match pollWaitAck env reg req (lg'.now + delay) p' lg' with
          | (true, p'', lg'') => (some f, p'', lg'')
          | (false, p'', lg'') => (none, p'', lg'')
        else (some f, p', lg')
      else pollAttempt env reg req delay deadline p' lg'
  | (none, p', lg') => (none, p', lg')
termination_by deadline - lg.now
decreasing_by
  have h1 : (wait env reg deadline p lg).1 = some f := by rw [hw]
  have h2 := wait_some_advances env reg deadline p lg f h1
  have h3 : (wait env reg deadline p lg).2.2 = lg' := by rw [hw]
  rw [h3] at h2
  omega

/-- the retry loop of `poll()` -/
def pollLoop (env : Env) (reg : Registry) (delay : Nat) (req : Req) :
    Nat → Parser → Log → Option RFrame × Parser × Log
  | 0, p, lg => (none, p, lg)
  | n + 1, p, lg =>
    let (ok, lg1) := flushSend env lg req.wire
    if ok then
      let p1 := p.emptyQueue.restart
      match pollAttempt env reg req.cid delay (lg1.now + delay) p1 lg1 with
      | (some f, p2, lg2) => (some f, p2, lg2)
      | (none, p2, lg2) => pollLoop env reg delay req n p2 (recover lg2)
    else pollLoop env reg delay req n p lg1

/-- `poll(frame_poll)` -/
def Srv.poll (s : Srv) (env : Env) (lg : Log) (req : Req) : Option RFrame × Srv × Log :=
  let reg := s.reg.register req.cid req.response
  let filter := if req.cid.cls = CLASS_CFG then [req.cid, ackCid, nakCid] else [req.cid]
  let p0 := s.parser.setFilters filter
  let (r, p, lg') := pollLoop env reg s.delay req (s.retries + 1) p0 lg
  (r, { s with parser := p, reg := reg }, lg')

end Ubx

import UbxModel.Model.Fields
import UbxModel.Model.PyCfg
/-! What the source-level translation of `ubxlib/types.py` (`tools/pysrc2lean_types.py` → `Gen/SrcTypes.lean`) is written
    over: an item object, the dispatch on its class, `struct` on a dynamically typed value, the text codec, and the walk over
    the fields of a container in their order. -/
namespace Py
open Ubx

/-- which of the three implementations of `pack` / `unpack` an item object has -/
inductive ItemClass | item | padding | ch
deriving DecidableEq, Repr

/-- an item object: `fmt` (class attribute of the `Item` subclasses), `length` (`Padding`, `CH`), `value` -/
structure ItemObj where
  cls : ItemClass
  fmt : String := ""
  length : Nat := 0
  value : Val := .int 0
deriving DecidableEq, Repr

/-- `struct.pack(fmt, v)` for a value of whatever type the attribute holds: anything but an integer is a `struct.error` -/
def structPackVal (fmt : String) : Val → Except Exc (List Nat)
  | .int v => structPack fmt v
  | .str _ => .error .structError

/-- `struct.calcsize(fmt)` for the one-value little-endian formats -/
def calcsize (fmt : String) : Except Exc Nat :=
  if fmt = "<B" ∨ fmt = "<b" then .ok 1 else if fmt = "<H" ∨ fmt = "<h" then .ok 2
  else if fmt = "<I" ∨ fmt = "<i" then .ok 4 else if fmt = "<Q" ∨ fmt = "<q" then .ok 8
  else .error .structError

/-- `value.encode()`: a `str` is the bytes of its UTF-8 encoding; an `int` has no such method -/
def encodeVal : Val → Except Exc (List Nat)
  | .str s => .ok s
  | .int _ => .error .attributeError

/-- `raw.decode()` (UTF-8, strict); `UnicodeDecodeError` is a `ValueError` -/
def decodeUtf8 (raw : List Nat) : Except Exc (List Nat) :=
  if validUtf8 raw then .ok raw else .error .valueError

/-- `bytearray(b) * n` -/
def repeatBytes (b : List Nat) (n : Nat) : List Nat := (List.replicate n b).flatten

/-- `for (_, v) in sorted(self._fields.items(), key=order): acc, v = body(v, acc)`: the items in their order, each replaced by what
    the body left of it -/
def forItems {σ : Type} : List ItemObj → σ → (ItemObj → σ → Except Exc (σ × ItemObj)) → Except Exc (σ × List ItemObj)
  | [], acc, _ => .ok (acc, [])
  | v :: rest, acc, body =>
    body v acc >>= fun (acc', v') =>
      forItems rest acc' body >>= fun (acc'', rest') => .ok (acc'', v' :: rest')

/-- the item object a field of kind `k` holding `v` is -/
def ItemObj.ofKind (k : Kind) (v : Val) : ItemObj :=
  match k with
  | .uint 1 => { cls := .item, fmt := "B", value := v }
  | .uint 2 => { cls := .item, fmt := "H", value := v }
  | .uint 4 => { cls := .item, fmt := "I", value := v }
  | .uint 8 => { cls := .item, fmt := "Q", value := v }
  | .sint 1 => { cls := .item, fmt := "b", value := v }
  | .sint 2 => { cls := .item, fmt := "h", value := v }
  | .sint 4 => { cls := .item, fmt := "i", value := v }
  | .sint 8 => { cls := .item, fmt := "q", value := v }
  | .uint _ => { cls := .item, fmt := "?", value := v }
  | .sint _ => { cls := .item, fmt := "?", value := v }
  | .pad n => { cls := .padding, length := n, value := v }
  | .text n => { cls := .ch, length := n, value := v }

/-- the widths `struct` has a one-value format for -/
def Kind.known : Kind → Bool
  | .uint w => w = 1 ∨ w = 2 ∨ w = 4 ∨ w = 8
  | .sint w => w = 1 ∨ w = 2 ∨ w = 4 ∨ w = 8
  | _ => true

end Py

import UbxModel.Model.Codec
import UbxModel.Gen.Keys
/-! Model of `ubxlib/cfgkeys.py` — `UbxKeyId.sign`, `CfgKeyData` (`from_key`, `pack`, `unpack`). -/
namespace Ubx

/-- a `CfgKeyData` object (the `name` is irrelevant for the codec) -/
structure CfgItem where
  group : Int          -- `group_id`
  item : Int           -- `item_id`
  bits : Nat           -- `bits`
  signed : Bool
  value : Int          -- Python `int`; `True`/`False` are 1/0
deriving DecidableEq, Repr

/-- `UbxKeyId.KEY_INFO` as it is when a call is made: (key id, name, signed).  The table is public and an application
    that uses keys the library does not ship registers them there, so everything below holds for whatever table is in
    force (an instance argument: it threads itself through); `publishedTable` is the one the source ships. -/
class KeyTable where
  entries : List (Nat × String × Bool)

/-- the table generated from the source on this run -/
def publishedTable : KeyTable := ⟨Gen.publishedKeys⟩

/-- `UbxKeyId.sign(key)`: the `signed` flag of `KEY_INFO[key]`, `False` for unknown keys -/
def keySigned [t : KeyTable] (key : Nat) : Bool :=
  match t.entries.find? (fun e => e.1 == key) with
  | some e => e.2.2
  | none => false

variable [KeyTable]

/-- `_bits_from_key`: `BITS_FROM_SIZE[(header >> 28) & 0x7]` -/
def bitsFromKey (key : Nat) : Except Exc Nat :=
  match Gen.bitsFromSize[(key >>> 28) &&& 0x7]? with
  | some b => .ok b
  | none => .error .indexError

/-- `_bytes_for_size`: `BYTES_FROM_BITS[bits]` or `ValueError` -/
def bytesForSize (bits : Nat) : Except Exc Nat :=
  match Gen.bytesFromBits.find? (fun e => e.1 == bits) with
  | some e => .ok e.2
  | none => .error .valueError

def groupFromKey (key : Nat) : Nat := (key >>> 16) &&& 0xFF
def itemFromKey (key : Nat) : Nat := (key >>> 0) &&& 0xFFF

/-- `_build_header` (arguments already range-checked by `pack`) -/
def buildHeader (group item bits : Nat) : Except Exc Nat :=
  match Gen.sizeFromBits.find? (fun e => e.1 == bits) with
  | none => .error .valueError                      -- `KeyError` re-raised as `ValueError`
  | some e => .ok (((e.2 &&& 0x7) <<< 28) ||| ((group &&& 0xFF) <<< 16) ||| ((item &&& 0xFFF) <<< 0))

/-- `from_key(key, value)` -/
def CfgItem.fromKey (key : Nat) (value : Int) : Except Exc CfgItem :=
  (bitsFromKey key).map fun bits =>
    { group := groupFromKey key, item := itemFromKey key, bits := bits, signed := keySigned key, value := value }

/-- `struct.error` is re-raised as `ValueError` -/
def structToValue {α} : Except Exc α → Except Exc α
  | .error e => .error (if e = .structError then .valueError else e)
  | .ok v => .ok v

/-- `_pack_value` -/
def CfgItem.packValue (c : CfgItem) : Except Exc (List Nat) :=
  if c.bits = 1 then packU 1 (if c.value ≠ 0 then 1 else 0)
  else if c.bits = 8 then (if c.signed then packI 1 c.value else packU 1 c.value)
  else if c.bits = 16 then (if c.signed then packI 2 c.value else packU 2 c.value)
  else if c.bits = 32 then (if c.signed then packI 4 c.value else packU 4 c.value)
  else if c.bits = 64 then (if c.signed then packI 8 c.value else packU 8 c.value)
  else .error .valueError

/-- `pack()` -/
def CfgItem.pack (c : CfgItem) : Except Exc (List Nat) :=
  if c.group < 0 ∨ c.group > 0xFF then .error .valueError
  else if c.item < 0 ∨ c.item > 0xFFF then .error .valueError
  else structToValue do
    let header ← buildHeader c.group.toNat c.item.toNat c.bits   -- `_pack_keyid`
    let key ← packU 4 header
    let value ← c.packValue                                        -- `_pack_value`
    pure (key ++ value)

/-- `_unpack_value` → (value, bytes needed) -/
def unpackValue (bits : Nat) (signed : Bool) (data : List Nat) : Except Exc (Int × Nat) :=
  match bytesForSize bits with
  | .error e => .error e
  | .ok n =>
    if bits = 1 then
      match unpackU 1 (data.take n) with
      | .error e => .error e
      | .ok v => if v = 0 then .ok (0, n) else if v = 1 then .ok (1, n) else .error .valueError
    else if bits = 8 then ((if signed then unpackI 1 (data.take n) else unpackU 1 (data.take n)).map (·, n))
    else if bits = 16 then ((if signed then unpackI 2 (data.take n) else unpackU 2 (data.take n)).map (·, n))
    else if bits = 32 then ((if signed then unpackI 4 (data.take n) else unpackU 4 (data.take n)).map (·, n))
    else if bits = 64 then ((if signed then unpackI 8 (data.take n) else unpackU 8 (data.take n)).map (·, n))
    else .error .valueError

/-- `unpack(data)` → (decoded object, bytes consumed) -/
def CfgItem.unpack (data : List Nat) : Except Exc (CfgItem × Nat) :=
  if data.length < 4 then .error .valueError
  else do
    let k ← unpackU 4 (data.take 4)
    let key := k.toNat
    let bits ← bitsFromKey key
    let signed := keySigned key
    let (v, n) ← structToValue (unpackValue bits signed (data.drop 4))
    pure ({ group := groupFromKey key, item := itemFromKey key, bits := bits, signed := signed, value := v }, 4 + n)

end Ubx

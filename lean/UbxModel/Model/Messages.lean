import UbxModel.Model.Fields
import UbxModel.Gen.Layouts
/-! Model of the message classes whose field table is built from the payload
    (`ubx_cfg_gnss.py`, `ubx_cfg_esfla.py`, `ubx_esf_status.py`, `ubx_mon_ver.py`): which byte (or length
    formula) yields the block count, the two passes over the payload, the `assert` of ESFLA.
    The block templates themselves are generated (`Gen.*_header`, `Gen.*_block`). -/
namespace Ubx

/-- the table of a message with `n` repeated blocks -/
def blocks (blk : Nat → Table) (n : Nat) : Table := (List.range n).flatMap blk

/-- value of a named field among decoded values -/
def fieldNat (t : Table) (vs : List Val) (name : String) : Nat :=
  match (t.zip vs).find? (fun x => x.1.1 == name) with
  | some (_, .int v) => v.toNat
  | _ => 0

/-- first pass over the header, block count from a header field, second pass over header + blocks;
    `limit`: the `assert count <= limit` between the passes -/
def decodeCounted (hdr : Table) (blk : Nat → Table) (countField : String) (limit : Option Nat) (pl : List Nat) :
    Except Exc (Table × List Val) :=
  match hdr.decode pl with
  | .error e => .error e
  | .ok (hv, _) =>
    let n := fieldNat hdr hv countField
    if (match limit with | some l => decide (n > l) | none => false) then .error .assertionError
    else
      let t := hdr ++ blocks blk n
      match t.decode pl with
      | .error e => .error e
      | .ok (vs, _) => .ok (t, vs)

def decodeGnss := decodeCounted Gen.UbxCfgGnss_header Gen.UbxCfgGnss_block "numConfigBlocks" none
def decodeEsfla := decodeCounted Gen.UbxCfgEsfla_header Gen.UbxCfgEsfla_block "numConfigs" (some 5)
def decodeEsfStatus := decodeCounted Gen.UbxEsfStatus_header Gen.UbxEsfStatus_block "numSens" none

/-- `UbxMonVer.unpack`: one pass; `int((len − 40) / 30)` extension strings (none when shorter than 70) -/
def decodeMonVer (pl : List Nat) : Except Exc (Table × List Val) :=
  let t := Gen.UbxMonVer_header ++ blocks Gen.UbxMonVer_block ((pl.length - 40) / 30)
  match t.decode pl with
  | .error e => .error e
  | .ok (vs, _) => .ok (t, vs)

end Ubx

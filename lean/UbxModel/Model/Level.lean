import UbxModel.Model.Server
import UbxModel.Model.Render
/-! Where the log level enters: at DEBUG `_send()` renders the request frame and `_wait()` the frame it
    received before anything else happens; a rendering error would escape from the request. -/
namespace Ubx
open Ubx.Render

/-- the request layer at DEBUG renders the frame before sending (`_send`); a rendering error would escape -/
def setAtLevel (debug : Bool) (s : Srv) (env : Env) (lg : Log) (req : Req)
    (name : String) (fields : List (String × RKind × Nat × Nat)) : Except Exc (Option RFrame × Srv × Log) :=
  if debug then
    match frameText name req.cid fields with
    | .error e => .error e
    | .ok _ => .ok (s.set env lg req)
  else .ok (s.set env lg req)

/-- the same for any action guarded by a DEBUG rendering of a frame — `poll()`, `set_mga()`,
    `fire_and_forget()` (`_send` renders the request), `_wait` (renders the frame it received) -/
def atLevel {α : Type} (debug : Bool) (name : String) (cid : Cid) (fields : List (String × RKind × Nat × Nat))
    (action : α) : Except Exc α :=
  if debug then
    match frameText name cid fields with
    | .error e => .error e
    | .ok _ => .ok action
  else .ok action

end Ubx

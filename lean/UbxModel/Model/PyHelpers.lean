import UbxModel.Model.Codec
/-! What the source-level translation of the convenience setters (`tools/pysrc2lean_helpers.py` → `Gen/SrcHelpers.lean`) is written
    over: the field container of a frame as a store of named integer values, and the three idioms the helpers use. -/
namespace Py
open Ubx

/-- a field name: text, and the index of the block for the fields of repeated blocks (`f'flags_{i}'`) -/
abbrev FName := String × Option Nat

/-- `frame.f`: the fields in their order, with the integer each holds -/
abbrev Store := List (FName × Int)

/-- `self.f._fields[name].value` / `self.f.get(name).value`: `KeyError` for a name that is no field -/
def Store.item (st : Store) (n : FName) : Except Exc Int :=
  match st.find? (fun e => e.1 == n) with
  | some e => .ok e.2
  | none => .error .keyError

/-- `self.f.<name>`: `AttributeError` for a name that is no field -/
def Store.attr (st : Store) (n : FName) : Except Exc Int :=
  match st.find? (fun e => e.1 == n) with
  | some e => .ok e.2
  | none => .error .attributeError

/-- `self.f.<name> = v` (`Fields.__setattr__`): the field's value if there is such a field; otherwise an ordinary attribute of the
    container is set, which no field sees -/
def Store.assign : Store → FName → Int → Store
  | [], _, _ => []
  | e :: rest, n, v => if e.1 == n then (e.1, v) :: rest else e :: Store.assign rest n v

/-- `for i in range(n): … if <hit i>: return i` / `break`: the first index below `n` at which the test holds; a read that raises
    before that ends the search with the exception -/
def firstIndexFrom (p : Nat → Except Exc Bool) : Nat → Nat → Except Exc (Option Nat)
  | _, 0 => .ok none
  | i, k + 1 => p i >>= fun b => if b then .ok (some i) else firstIndexFrom p (i + 1) k

def firstIndex (n : Nat) (p : Nat → Except Exc Bool) : Except Exc (Option Nat) := firstIndexFrom p 0 n

/-- `v |= 0x1` and `v &= ~0x1` on a Python `int` of either sign -/
def setBit0 (v : Int) : Int := v - v % 2 + 1
def clearBit0 (v : Int) : Int := v - v % 2

end Py

import UbxModel.Model.ParserUbx
import UbxModel.Model.ParserNmea
/-! Model of `ubxlib/server_tty.py` — `scan()`, `_transmit()`, `_recover()`.
    The serial port and the clock are an oracle: the `j`-th `read(1)` takes some ticks and returns a
    byte or times out. -/
namespace Ubx.Tty

structure Env where
  rd : Nat → Nat × Option Nat

def tick (dt : Nat) : Nat := max 1 dt

structure ScanState where
  ubx : Parser := Parser.fresh none      -- `UbxParser(None)`, no filter
  nmea : Nmea.P := Nmea.P.fresh
  now : Nat
  j : Nat := 0                            -- reads made
  seen : List Nat := []                   -- ghost: every byte received so far, in order

/-- the loop of `scan()`: `True` as soon as one of the parsers has counted two frames -/
def scanLoop (env : Env) (tEnd : Nat) (s : ScanState) : Bool × ScanState :=
  if s.now < tEnd then
    let r := env.rd s.j
    let now' := s.now + tick r.1
    match r.2 with
    | none => scanLoop env tEnd { s with now := now', j := s.j + 1 }
    | some d =>
        let u := s.ubx.process [d]
        let s1 : ScanState := { s with ubx := u, now := now', j := s.j + 1, seen := s.seen ++ [d] }
        if u.framesRx ≥ 2 then (true, s1)
        else
          let n := s.nmea.process [d]
          let s2 : ScanState := { s1 with nmea := n }
          if n.framesRx ≥ 2 then (true, s2) else scanLoop env tEnd s2
  else (false, s)
termination_by tEnd - s.now
decreasing_by all_goals simp only [tick]; omega

/-- `scan(interval)` started at time `t0` (after `_flush_input()`) -/
def scan (env : Env) (t0 interval : Nat) : Bool × ScanState :=
  scanLoop env (t0 + interval) { now := t0 }

/-- the serial port object, as far as `_transmit` / `_recover` use it -/
structure Port where
  isOpen : Bool
  baud : Nat
  log : List (String × Nat) := []       -- baud-rate writes, in order

/-- `_transmit(data)`: success iff `write()` reports all bytes written -/
def transmit (written : Nat) (data : List Nat) : Bool := written == data.length

/-- `_recover()`: toggle the bit rate to 9600 and back -/
def recover (p : Port) : Port :=
  let current := p.baud
  { p with baud := current, log := p.log ++ [("baudrate", 9600), ("baudrate", current)] }

end Ubx.Tty

import UbxModel.Model.PyHelpers
import UbxModel.Gen.SrcTypes
/-! What the source-level translation of the `unpack` methods of the block-structured messages (`tools/pysrc2lean_blocks.py` →
    `Gen/SrcBlocks.lean`) is written over: the container being filled, reads of a decoded field, `range` of it, the little integer
    arithmetic `UbxMonVer.unpack` does on the payload length. -/
namespace Py.Blocks
open Ubx

/-- `Fields`: the names `add` has seen and the item objects, both in the order added -/
structure Container where
  names : List Py.FName := []
  items : List Py.ItemObj := []

/-- `Fields.add(item)`: `KeyError` for a name the container already has -/
def Container.add (c : Container) (n : Py.FName) (o : Py.ItemObj) : Except Exc Container :=
  if c.names.contains n then .error .keyError else .ok { names := c.names ++ [n], items := c.items ++ [o] }

def valueAt : List Py.FName → List Py.ItemObj → Py.FName → Option Val
  | n' :: ns, o :: os, n => if n' == n then some o.value else valueAt ns os n
  | _, _, _ => none

/-- `self.f.<name>`: the value of the field of that name; `AttributeError` if there is none -/
def Container.attr (c : Container) (n : Py.FName) : Except Exc Val :=
  match valueAt c.names c.items n with
  | some v => .ok v
  | none => .error .attributeError

/-- `super().unpack()` = `UbxFrame.unpack` = `self.f.unpack(self.data)` (what it returns is dropped): every item decodes its part -/
def Container.unpack (c : Container) (data : List Nat) : Except Exc Container :=
  Gen.Src.Types.Fields.unpack c.items data >>= fun (_, items) => .ok { c with items := items }

/-- `range(v)`: as many passes as the integer says (none for a negative one); `TypeError` for a text -/
def rangeOf : Val → Except Exc Nat
  | .int v => .ok v.toNat
  | .str _ => .error .typeError

/-- `v <= k` for a decoded value: `TypeError` for a text against an integer -/
def valLe : Val → Nat → Except Exc Bool
  | .int v, k => .ok (decide (v ≤ (k : Int)))
  | .str _, _ => .error .typeError

def forRangeFromE {σ : Type} (body : Nat → σ → Except Exc σ) : Nat → Nat → σ → Except Exc σ
  | _, 0, st => .ok st
  | i, n + 1, st => body i st >>= fun st' => forRangeFromE body (i + 1) n st'

/-- `for i in range(n): body` -/
def forRangeE {σ : Type} (n : Nat) (st : σ) (body : Nat → σ → Except Exc σ) : Except Exc σ := forRangeFromE body 0 n st

/-- `int(a / k)` for integers: the quotient truncated toward zero (the float division is exact far beyond any payload length) -/
def intQuot (a : Int) (k : Nat) : Int := Int.tdiv a k

end Py.Blocks

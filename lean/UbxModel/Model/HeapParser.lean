import UbxModel.Model.ParserUbx
/-! `UbxParser` once more, with Python's object identity made explicit: every `bytearray()` that
    `_reset()` creates is a cell of a heap, `msg_data` is a reference to one of them, and queued
    packets hold references, not copies.  Used for C11 ("queued packets never change"). -/
namespace Ubx

inductive HPacket
  | data (cid : Cid) (buf : Nat)      -- `(cid, self.msg_data)`: a reference
  | crcError
deriving DecidableEq, Repr

structure HParser where
  st : St := .init
  msgClass : Nat := 0
  msgId : Nat := 0
  msgLen : Nat := 0
  ofs : Nat := 0
  cur : Nat := 0                        -- which heap cell `self.msg_data` refers to
  cka : Nat := 0
  ckb : Nat := 0
  ck : Ck := Ck.zero
  queue : List HPacket := []
  filter : Option (List Cid) := none
  framesRx : Nat := 0
  bufs : List (List Nat) := [[]]        -- the heap; `__init__` calls `_reset()` once
  out : List Nat := []                  -- ghost: cells handed out by `packet()`
deriving Repr

/-- `_reset()`: a *new* bytearray -/
def HParser.reset (h : HParser) : HParser :=
  { h with msgClass := 0, msgId := 0, msgLen := 0, cur := h.bufs.length, bufs := h.bufs ++ [[]],
           cka := 0, ckb := 0, ofs := 0, ck := h.ck.reset }

/-- `self.msg_data.append(d)`: mutates the cell in place -/
def HParser.append (h : HParser) (d : Nat) : List (List Nat) :=
  h.bufs.modify h.cur (· ++ [d])

def HParser.step (h : HParser) (d : Nat) : HParser :=
  match h.st with
  | .init => if d = Gen.sync1 then { h with st := .sync } else h
  | .sync =>
      if d = Gen.sync2 then { h.reset with st := .cls }
      else if d = Gen.sync1 then h
      else { h with st := .init }
  | .cls => { h with msgClass := d, ck := h.ck.add d, st := .id }
  | .id => { h with msgId := d, ck := h.ck.add d, st := .len1 }
  | .len1 => { h with msgLen := d, ck := h.ck.add d, st := .len2 }
  | .len2 =>
      let len := h.msgLen + d * 256
      if len = 0 then { h with msgLen := len, ck := h.ck.add d, st := .crc1 }
      else if len > MAXLEN then { h with msgLen := len, ck := h.ck.add d, st := .init }
      else { h with msgLen := len, ck := h.ck.add d, ofs := 0, st := .data }
  | .data =>
      if h.ofs + 1 = h.msgLen then
        { h with bufs := h.append d, ck := h.ck.add d, ofs := h.ofs + 1, st := .crc1 }
      else
        { h with bufs := h.append d, ck := h.ck.add d, ofs := h.ofs + 1 }
  | .crc1 => { h with cka := d, st := .crc2 }
  | .crc2 =>
      if h.ck.a = h.cka ∧ h.ck.b = d then
        { h with ckb := d, st := .init, framesRx := h.framesRx + 1,
                 queue := if filterPasses h.filter ⟨h.msgClass, h.msgId⟩
                          then h.queue ++ [.data ⟨h.msgClass, h.msgId⟩ h.cur] else h.queue }
      else
        { h with ckb := d, st := .init, queue := h.queue ++ [.crcError] }

def HParser.process (h : HParser) (bs : List Nat) : HParser := bs.foldl HParser.step h

/-- the other operations -/
def HParser.restart (h : HParser) : HParser := { h with st := .init }
def HParser.setFilters (h : HParser) (cids : List Cid) : HParser := { h with filter := some cids }
def HParser.emptyQueue (h : HParser) : HParser := { h with queue := [] }
def HParser.packet (h : HParser) : HParser :=
  match h.queue with
  | [] => h
  | .data _ b :: q => { h with queue := q, out := h.out ++ [b] }
  | .crcError :: q => { h with queue := q }

inductive Op
  | process (chunk : List Nat) | setFilters (cids : List Cid) | emptyQueue | packet | restart
deriving Repr

def HParser.apply (h : HParser) : Op → HParser
  | .process c => h.process c
  | .setFilters f => h.setFilters f
  | .emptyQueue => h.emptyQueue
  | .packet => h.packet
  | .restart => h.restart

/-- the cells somebody else may be holding: queued or handed out -/
def HParser.shared (h : HParser) : List Nat :=
  h.out ++ h.queue.filterMap (fun | .data _ b => some b | .crcError => none)

end Ubx

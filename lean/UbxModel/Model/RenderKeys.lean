import UbxModel.Model.CfgKeys
import UbxModel.Model.Render
/-! Model of `CfgKeyData.__str__` (`ubxlib/cfgkeys.py`). -/
namespace Ubx
open Ubx.Render (hexText)

/-- `UbxKeyId.to_str(key)` -/
def keyName (key : Nat) : Option String :=
  (Gen.keyNames.find? (fun e => e.1 == key)).map (·.2)

/-- Python `format(v, '0{w}x')` for an `int`: the sign counts towards the width -/
def hexInt (w : Nat) (v : Int) : String :=
  if v < 0 then "-" ++ hexText (w - 1) v.natAbs else hexText w v.toNat

/-- `f', value: {v:d} (0x{v:0wx})'` resp. `f', value: {v:d}'` -/
def valueText (signed : Bool) (w : Nat) (v : Int) : String :=
  if signed then ", value: " ++ toString v else ", value: " ++ toString v ++ " (0x" ++ hexInt w v ++ ")"

/-- `CfgKeyData.__str__`: `ValueError` for a width that is not 1, 8, 16, 32 or 64 (from `_build_header`) -/
def CfgItem.text (name : String) (c : CfgItem) : Except Exc String := do
  let header ← buildHeader (c.group % 256).toNat (c.item % 4096).toNat c.bits
  let key := match keyName header with
    | some k => " key: " ++ k
    | none => " group: 0x" ++ hexInt 2 c.group ++ ", item: 0x" ++ hexInt 3 c.item
  let res := name ++ ":" ++ key ++ ", bits: " ++ toString c.bits
  if c.bits = 1 then pure (res ++ ", value: " ++ (if c.value ≠ 0 then "True" else "False"))
  else if c.bits = 8 then pure (res ++ valueText c.signed 2 c.value)
  else if c.bits = 16 then pure (res ++ valueText c.signed 4 c.value)
  else if c.bits = 32 then pure (res ++ valueText c.signed 8 c.value)
  else if c.bits = 64 then pure (res ++ valueText c.signed 16 c.value)
  else throw .valueError

end Ubx

import UbxModel.Model.PyServer
import UbxModel.Model.PyHelpers
import UbxModel.Gen.SrcCfg
import UbxModel.Gen.SrcTypes
/-! What the source-level translation of `UbxCfgValGet.unpack` (`tools/pysrc2lean_valget.py` → `Gen/SrcValget.lean`) is written over,
    beyond the control-flow calculus of Model/PyServer.lean and the generated `CfgKeyData.unpack` / `Fields.unpack`: the duplicate
    check of `Fields.add`, and the end of a method whose result is the object it filled. -/
namespace Py.Valget
open Ubx

/-- `Fields.add(field)`: `KeyError` for a name the container already has; otherwise the name is recorded (in insertion order) -/
def add (names : List Py.FName) (n : Py.FName) : Except Exc (List Py.FName) :=
  if names.contains n then .error .keyError else .ok (names ++ [n])

/-- the method ends: the container as filled, or what it was left with (an exception out of `construct()` discards the object) -/
def finish {σ : Type} : Py.Ctl σ Unit → Except Py.Abort σ
  | .next s => .ok s
  | .brk s => .ok s
  | .ret _ s => .ok s
  | .abort a _ => .error a

end Py.Valget

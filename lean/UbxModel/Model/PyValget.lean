import UbxModel.Model.PyServer
import UbxModel.Model.PyHelpers
import UbxModel.Gen.SrcCfg
import UbxModel.Gen.SrcTypes
/-! What the source-level translation of `UbxCfgValGet.unpack` (`tools/pysrc2lean_valget.py` → `Gen/SrcValget.lean`) is written over,
    beyond the control-flow calculus of Model/PyServer.lean and the generated `CfgKeyData.unpack` / `Fields.unpack`: the duplicate
    check of `Fields.add`, and the end of a method whose result is the object it filled. -/
namespace Py.Valget
open Ubx

/-- `Fields.add(field)`: `KeyError` for a name the container already has; otherwise the name is recorded (in insertion order) -/
def add (names : List Py.FName) (n : Py.FName) : Except Exc (List Py.FName) :=
  if names.contains n then .error .keyError else .ok (names ++ [n])

/-- the method ends: the container as filled, or what it was left with (an exception out of `construct()` discards the object) -/
def finish {σ : Type} : Py.Ctl σ Unit → Except Py.Abort σ
  | .next s => .ok s
  | .brk s => .ok s
  | .ret _ s => .ok s
  | .abort a _ => .error a

/-! ### the container as the constructors of VALSET / VALGET-poll build it (`tools/pysrc2lean_valset.py`) -/

/-- what a container holds: item objects of `types.py`, key/value items of `cfgkeys.py` -/
inductive Field
  | item (o : Py.ItemObj)
  | cfg (c : CfgItem)

/-- `Fields`: the names `add` has seen and the fields, both in the order added -/
structure Container where
  names : List Py.FName := []
  fields : List Field := []

/-- `Fields.add(field)` -/
def Container.add (c : Container) (n : Py.FName) (f : Field) : Except Exc Container :=
  if c.names.contains n then .error .keyError else .ok { names := c.names ++ [n], fields := c.fields ++ [f] }

def Field.setValue (f : Field) (v : Int) : Field :=
  match f with
  | .item o => .item { o with value := .int v }
  | .cfg c => .cfg { c with value := v }

def assignAt : List Py.FName → List Field → Py.FName → Int → List Field
  | n' :: ns, f :: fs, n, v => if n' == n then f.setValue v :: fs else f :: assignAt ns fs n v
  | _, fs, _, _ => fs

/-- `self.f.<name> = v` (`Fields.__setattr__`): the value of the field of that name, if there is one (otherwise an ordinary attribute
    of the container is set, which no field sees) -/
def Container.assign (c : Container) (n : Py.FName) (v : Int) : Container :=
  { c with fields := assignAt c.names c.fields n v }

/-- `for v in <the fields in their order>` with an accumulator; the fields may change -/
def forFields {σ : Type} : List Field → σ → (Field → σ → Except Exc (σ × Field)) → Except Exc (σ × List Field)
  | [], acc, _ => .ok (acc, [])
  | v :: rest, acc, body =>
    body v acc >>= fun (acc', v') =>
      forFields rest acc' body >>= fun (acc'', rest') => .ok (acc'', v' :: rest')

def forEnumFrom {α σ : Type} (body : Nat → α → σ → Except Exc σ) : Nat → List α → σ → Except Exc σ
  | _, [], st => .ok st
  | i, x :: xs, st => body i x st >>= fun st' => forEnumFrom body (i + 1) xs st'

/-- `for i, x in enumerate(xs): body` -/
def forEnum {α σ : Type} (xs : List α) (st : σ) (body : Nat → α → σ → Except Exc σ) : Except Exc σ := forEnumFrom body 0 xs st

end Py.Valget

import UbxModel.Model.Codec
/-! What the source-level translation of `CfgKeyData` (`tools/pysrc2lean_cfg.py` → `Gen/SrcCfg.lean`) is written over:
    CPython's `struct.pack` / `struct.unpack` for the one-value little-endian formats (modelled: little-endian two's
    complement with `struct.error` on range or length, `Model/Codec`), and `try: … except A: raise B`. -/
namespace Py
open Ubx

/-- `struct.pack(fmt, v)` for a one-value little-endian format -/
def structPack (fmt : String) (v : Int) : Except Exc (List Nat) :=
  if fmt = "<B" then packU 1 v else if fmt = "<b" then packI 1 v
  else if fmt = "<H" then packU 2 v else if fmt = "<h" then packI 2 v
  else if fmt = "<I" then packU 4 v else if fmt = "<i" then packI 4 v
  else if fmt = "<Q" then packU 8 v else if fmt = "<q" then packI 8 v
  else .error .structError

/-- `struct.unpack(fmt, data)[0]` for a one-value little-endian format -/
def structUnpack (fmt : String) (data : List Nat) : Except Exc Int :=
  if fmt = "<B" then unpackU 1 data else if fmt = "<b" then unpackI 1 data
  else if fmt = "<H" then unpackU 2 data else if fmt = "<h" then unpackI 2 data
  else if fmt = "<I" then unpackU 4 data else if fmt = "<i" then unpackI 4 data
  else if fmt = "<Q" then unpackU 8 data else if fmt = "<q" then unpackI 8 data
  else .error .structError

/-- `try: body except A: raise B` -/
def reraise {α : Type} (a b : Exc) : Except Exc α → Except Exc α
  | .error e => .error (if e = a then b else e)
  | .ok v => .ok v

end Py

import UbxModel.Model.Fields
import UbxModel.Model.ParserUbx
import UbxModel.Gen.RenderTables
/-! Model of the `__str__` methods: `Item`, the eleven table-driven renderers of the message files,
    `Fields` and `UbxFrame`.  A renderer returns the text after `"<name>: "`, or the exception the
    Python code would raise (`IndexError` for a table index out of range).

    Derived attributes (`status`, `type`, …) are recomputed by `unpack` only; a fresh item holds the
    `__init__` defaults (all 0 / False), which are `derive 0`, so "fresh or decoded" is "derive v for
    some byte v"; after an edit of `value` they are stale but still of that form. -/
namespace Ubx.Render

/-- `table[i]` with Python's `IndexError` -/
def idx (t : List String) (i : Nat) : Except Exc String :=
  match t[i]? with
  | some s => .ok s
  | none => .error .indexError

/-- `f'{v:0{w}x}'` is total for integers; only the digits matter here -/
def hexText (w : Nat) (v : Nat) : String :=
  let ds := (Nat.toDigits 16 v)
  String.mk (List.replicate (w - ds.length) '0' ++ ds)

/-- which `__str__` an item class has -/
inductive RKind
  | plain          -- Item: `{value}`
  | hex (w : Nat)  -- X1/X2/X4: `{value:0wx}`
  | leverArmType | gnssId | flagsEnable | proto | mode
  | algFlags | initStatus1 | initStatus2 | fusionMode | sensStatus1 | sensStatus2 | gpsFix | navFlags
deriving DecidableEq, Repr

/-- renderer tag from the item class name (generated `itemClasses`) -/
def kindOf : String → RKind
  | "X1" => .hex 2 | "X2" => .hex 4 | "X4" => .hex 8
  | "U1_LeverArmType" => .leverArmType | "U1_GnssId" => .gnssId | "X4_Flags" => .flagsEnable
  | "X2_Proto" => .proto | "X4_Mode" => .mode | "U1_Flags" => .algFlags
  | "X1_InitStatus1" => .initStatus1 | "X1_InitStatus2" => .initStatus2 | "U1_FusionMode" => .fusionMode
  | "X1_SensStatus1" => .sensStatus1 | "X1_SensStatus2" => .sensStatus2 | "U1_GpsFix" => .gpsFix
  | "X1_Flags" => .navFlags
  | _ => .plain

/-- the tables local to `X4_Mode.__str__` (not reachable by reflection; tied exhaustively) -/
def charlenStr : List String := ["5", "6", "7", "8"]
def parityStr : List String := ["even", "odd", "", "reserved", "none", "none", "reserved", "reserved"]
def stopbitsStr : List String := ["1", "1.5", "2", "0.5"]

def boolText (b : Bool) : String := if b then "True" else "False"

/-- the text after `"<name>: "`; `v` is the current value, `d` the value the derived attributes were
    computed from (`d = 0` for a fresh item) -/
def render (k : RKind) (v d : Nat) : Except Exc String :=
  match k with
  | .plain => .ok (toString v)
  | .hex w => .ok (hexText w v)
  | .leverArmType =>
      if v < Gen.U1_LeverArmType_type_names.length then
        (idx Gen.U1_LeverArmType_type_names v).map fun s => s ++ " (" ++ toString v ++ ")"
      else .ok "<invalid>"
  | .gnssId =>
      if v < Gen.U1_GnssId_gnss_system_names.length then idx Gen.U1_GnssId_gnss_system_names v else .ok "<invalid>"
  | .flagsEnable => .ok (if (v >>> 0) &&& 1 = 1 then "enabled" else "disabled")
  | .proto =>
      .ok (String.intercalate ", " ((if v &&& 1 ≠ 0 then ["UBX"] else []) ++ (if v &&& 2 ≠ 0 then ["NMEA"] else [])
        ++ (if v &&& 4 ≠ 0 then ["RTCM"] else [])))
  | .mode => do
      let c ← idx charlenStr ((v >>> 6) &&& 0x03)
      let p ← idx parityStr ((v >>> 9) &&& 0x07)
      let s ← idx stopbitsStr ((v >>> 12) &&& 0x03)
      pure (c ++ " bits, " ++ p ++ ", " ++ s ++ " stop bit(s)")
  | .algFlags => do
      let st ← idx Gen.U1_Flags_status_strings ((d >>> 1) &&& 0x07)
      pure ("autoMntAlgn: " ++ (if (d >>> 0) &&& 1 = 1 then "on, " else "off, ") ++ "status: " ++ st)
  | .initStatus1 => do
      let wt ← idx Gen.X1_InitStatus1_wt_init_strings ((d >>> 0) &&& 0x03)
      let ma ← idx Gen.X1_InitStatus1_mnt_alg_strings ((d >>> 2) &&& 0x07)
      let ins ← idx Gen.X1_InitStatus1_ins_init_strings ((d >>> 5) &&& 0x03)
      pure ("wt: " ++ wt ++ ", mntAlg: " ++ ma ++ ", ins: " ++ ins)
  | .initStatus2 => (idx Gen.X1_InitStatus2_imu_init_strings ((d >>> 0) &&& 0x03)).map ("imu: " ++ ·)
  | .fusionMode =>
      if v < Gen.U1_FusionMode_fusion_mode_strings.length then idx Gen.U1_FusionMode_fusion_mode_strings v
      else .ok "<invalid>"
  | .sensStatus1 => do
      let ty := (d >>> 0) &&& 0x3F
      let t ← if ty < Gen.X1_SensStatus1_sensor_types.length then idx Gen.X1_SensStatus1_sensor_types ty
              else pure "<invalid>"
      pure (t ++ ", " ++ (if (d >>> 6) &&& 1 = 1 then "used, " else "unused, ")
        ++ (if (d >>> 7) &&& 1 = 1 then "ready" else "not ready"))
  | .sensStatus2 => do
      let c ← idx Gen.X1_SensStatus2_calib_strings ((d >>> 0) &&& 0x03)
      let t ← idx Gen.X1_SensStatus2_time_strings ((d >>> 2) &&& 0x03)
      pure ("calibStatus: " ++ c ++ ", timeStatus: " ++ t)
  | .gpsFix =>
      if v < Gen.U1_GpsFix_gps_fix_strings.length then idx Gen.U1_GpsFix_gps_fix_strings v else .ok "<invalid>"
  | .navFlags =>
      .ok ("gpsFixOk: " ++ boolText ((d >>> 0) &&& 1 = 1) ++ ", diffSoln: " ++ boolText ((d >>> 1) &&& 1 = 1)
        ++ ", wknSet: " ++ boolText ((d >>> 2) &&& 1 = 1) ++ ", towSet: " ++ boolText ((d >>> 3) &&& 1 = 1))

/-- one line of `Fields.__str__`: `"\n  <name>: <text>"` -/
def line (name : String) (k : RKind) (v d : Nat) : Except Exc String :=
  (render k v d).map fun t => name ++ ": " ++ t

/-- `Fields.__str__` / `UbxFrame.__str__`: the header `NAME cid` and one line per non-reserved field;
    a field is (name, renderer, current value, value the derived attributes were computed from) -/
def frameText (name : String) (cid : Cid) (fields : List (String × RKind × Nat × Nat)) : Except Exc (List String) :=
  (fields.mapM fun f => line f.1 f.2.1 f.2.2.1 f.2.2.2).map fun ls => (name ++ " cls:" ++ hexText 2 cid.cls ++ " id:" ++ hexText 2 cid.id) :: ls

end Ubx.Render

/-! The few Python primitives the source-level translation (`tools/pysrc2lean.py` → `Gen/Src.lean`) needs,
    with the meaning CPython gives them on the values that occur there. -/
namespace Py

/-- truthiness of `None` / a list -/
def truthyOptList {α : Type} : Option (List α) → Bool
  | none => false
  | some l => !l.isEmpty

/-- `x in lst` for a list that is known to be there (the test is guarded by the truthiness test) -/
def inOptList {α : Type} [BEq α] (x : α) : Option (List α) → Bool
  | none => false
  | some l => l.contains x

/-- `c in '…'` for a one-character string `c`, characters as their codes -/
def inChars (c : Nat) (chars : List Nat) : Bool := chars.contains c

/-- `int(c, 16)` for a hexadecimal digit `c` (only called after `c in '0123456789abcdefABCDEF'`) -/
def hexDigitValue (c : Nat) : Nat :=
  if 48 ≤ c ∧ c ≤ 57 then c - 48 else if 97 ≤ c ∧ c ≤ 102 then c - 87 else c - 55

end Py

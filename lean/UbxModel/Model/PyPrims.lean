import UbxModel.Model.Codec
/-! The few Python primitives the source-level translation (`tools/pysrc2lean.py` → `Gen/Src.lean`) needs,
    with the meaning CPython gives them on the values that occur there. -/
namespace Py

/-- truthiness of `None` / a list -/
def truthyOptList {α : Type} : Option (List α) → Bool
  | none => false
  | some l => !l.isEmpty

/-- `x in lst` for a list that is known to be there (the test is guarded by the truthiness test) -/
def inOptList {α : Type} [BEq α] (x : α) : Option (List α) → Bool
  | none => false
  | some l => l.contains x

/-- `c in '…'` for a one-character string `c`, characters as their codes -/
def inChars (c : Nat) (chars : List Nat) : Bool := chars.contains c

/-- `int(c, 16)` for a hexadecimal digit `c` (only called after `c in '0123456789abcdefABCDEF'`) -/
def hexDigitValue (c : Nat) : Nat :=
  if 48 ≤ c ∧ c ≤ 57 then c - 48 else if 97 ≤ c ∧ c ≤ 102 then c - 87 else c - 55

/-- `lst[i]` with `IndexError` -/
def listIndex (l : List Nat) (i : Nat) : Except Ubx.Exc Nat :=
  match l[i]? with
  | some v => .ok v
  | none => .error .indexError

/-- `d[k]` on a dict given as its items; a missing key ends in `err` (`KeyError`, or what the code re-raises it as) -/
def dictGet (d : List (Nat × Nat)) (k : Nat) (err : Ubx.Exc) : Except Ubx.Exc Nat :=
  match d.find? (fun e => e.1 == k) with
  | some e => .ok e.2
  | none => .error err

/-- `k in d` -/
def dictHas (d : List (Nat × Nat)) (k : Nat) : Bool := (d.find? (fun e => e.1 == k)).isSome

end Py

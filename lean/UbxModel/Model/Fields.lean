import UbxModel.Model.Codec
/-! Model of `ubxlib/types.py`: `Item` and its subclasses (by what their `pack`/`unpack` do),
    `Padding`, `CH`, and the ordered container `Fields`. -/
namespace Ubx

/-- what an item does on the wire; produced by the translator from `Item.fmt`, `Padding.length`,
    `CH.length` -/
inductive Kind
  | uint (w : Nat)     -- fmt 'B' 'H' 'I' 'Q'
  | sint (w : Nat)     -- fmt 'b' 'h' 'i' 'q'
  | pad (n : Nat)      -- Padding(n)
  | text (n : Nat)     -- CH(n)
deriving DecidableEq, Repr

def Kind.width : Kind → Nat
  | .uint w => w | .sint w => w | .pad n => n | .text n => n

/-- a field value: a Python `int` or (for `CH`) a `str`, kept as the bytes of its UTF-8 encoding
    (Python's codec being a bijection between well-formed UTF-8 and surrogate-free `str`s belongs to the runtime) -/
inductive Val
  | int (v : Int)
  | str (s : List Nat)
deriving DecidableEq, Repr

/-- name and kind, in `order` -/
abbrev Table := List (String × Kind)

def Table.size (t : Table) : Nat := (t.map (·.2.width)).sum

/-- `text.rstrip('\x00')` -/
def stripNuls (s : List Nat) : List Nat := (s.reverse.dropWhile (· == 0)).reverse

def isCont (b : Nat) : Bool := 0x80 ≤ b && b ≤ 0xBF

/-- what `bytes.decode()` (UTF-8, strict) accepts: shortest forms only, no surrogates, nothing above U+10FFFF
    (Unicode Table 3-7, well-formed UTF-8 byte sequences) -/
def validUtf8 : List Nat → Bool
  | [] => true
  | b0 :: rest =>
    if b0 < 0x80 then validUtf8 rest
    else if 0xC2 ≤ b0 && b0 ≤ 0xDF then
      match rest with
      | b1 :: r => isCont b1 && validUtf8 r
      | _ => false
    else if 0xE0 ≤ b0 && b0 ≤ 0xEF then
      match rest with
      | b1 :: b2 :: r =>
          (if b0 = 0xE0 then 0xA0 ≤ b1 && b1 ≤ 0xBF else if b0 = 0xED then 0x80 ≤ b1 && b1 ≤ 0x9F else isCont b1)
            && isCont b2 && validUtf8 r
      | _ => false
    else if 0xF0 ≤ b0 && b0 ≤ 0xF4 then
      match rest with
      | b1 :: b2 :: b3 :: r =>
          (if b0 = 0xF0 then 0x90 ≤ b1 && b1 ≤ 0xBF else if b0 = 0xF4 then 0x80 ≤ b1 && b1 ≤ 0x8F else isCont b1)
            && isCont b2 && isCont b3 && validUtf8 r
      | _ => false
    else false
termination_by l => l.length
decreasing_by all_goals (simp_wf; try omega)

/-- the value a freshly constructed item holds -/
def Kind.default : Kind → Val
  | .text _ => .str []
  | _ => .int 0

/-- `item.unpack(data)` → (new value, bytes consumed).  `Padding.unpack` reads nothing and cannot fail. -/
def Kind.unpack (k : Kind) (data : List Nat) : Except Exc (Val × Nat) :=
  match k with
  | .uint w => (unpackU w data).map fun v => (.int v, w)
  | .sint w => (unpackI w data).map fun v => (.int v, w)
  | .pad n => .ok (.int 0, n)
  | .text n =>
      if data.length < n then .error .valueError
      else if !validUtf8 (data.take n) then .error .valueError     -- `UnicodeDecodeError`, re-raised as `ValueError`
      else .ok (.str (stripNuls (data.take n)), n)

/-- `item.pack()` -/
def Kind.pack (k : Kind) (v : Val) : Except Exc (List Nat) :=
  match k, v with
  | .uint w, .int v => packU w v
  | .sint w, .int v => packI w v
  | .pad n, _ => .ok (List.replicate n 0)
  | .text n, .str s =>
      if s.length > n then .error .valueError
      else .ok (s ++ List.replicate (n - s.length) 0)
  | .uint _, .str _ => .error .structError     -- "required argument is not an integer"
  | .sint _, .str _ => .error .structError
  | .text _, .int _ => .error .attributeError  -- `int` has no `encode`

/-- `Fields.unpack(data)`: items in order, each consuming from the front of the remaining data;
    returns the values and the remaining `work_data` -/
def Table.decode : Table → List Nat → Except Exc (List Val × List Nat)
  | [], data => .ok ([], data)
  | (_, k) :: rest, data =>
      match k.unpack data with
      | .error e => .error e
      | .ok (v, n) =>
          match Table.decode rest (data.drop n) with
          | .error e => .error e
          | .ok (vs, rem) => .ok (v :: vs, rem)

/-- `Fields.pack()` -/
def Table.encode : Table → List Val → Except Exc (List Nat)
  | [], _ => .ok []
  | (_, k) :: rest, v :: vs =>
      match k.pack v with
      | .error e => .error e
      | .ok bs =>
          match Table.encode rest vs with
          | .error e => .error e
          | .ok more => .ok (bs ++ more)
  | _ :: _, [] => .error .keyError   -- cannot happen: one value per item

end Ubx

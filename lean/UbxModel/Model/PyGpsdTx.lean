import UbxModel.Model.Gpsd
/-! What the source-level translation of the gpsd command framing (`tools/pysrc2lean_gpsdtx.py` → `Gen/SrcGpsdTx.lean`) is written over. -/
namespace Py.GpsdTx

/-- `text.encode()` of ASCII text: the character codes -/
def encodeAscii (s : String) : List Nat := s.toList.map Char.toNat

end Py.GpsdTx

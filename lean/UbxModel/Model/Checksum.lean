/-! Model of `ubxlib/checksum.py` — class `Checksum`. -/
namespace Ubx

/-- `_cka`, `_ckb` -/
structure Ck where
  a : Nat
  b : Nat
deriving DecidableEq, Repr

/-- `reset()` / state after `__init__` -/
def Ck.zero : Ck := ⟨0, 0⟩
def Ck.reset (_ : Ck) : Ck := Ck.zero

/-- `add(byte)`: `_cka += byte; _cka &= 0xFF; _ckb += _cka; _ckb &= 0xFF` -/
def Ck.add (c : Ck) (x : Nat) : Ck :=
  let a := (c.a + x) &&& 0xFF
  ⟨a, (c.b + a) &&& 0xFF⟩

/-- `value()` -/
def Ck.value (c : Ck) : Nat × Nat := (c.a, c.b)

/-- `matches(cka, ckb)` -/
def Ck.matches (c : Ck) (a b : Nat) : Bool := c.a == a && c.b == b

/-- `add` applied to a byte sequence in order -/
def Ck.addAll (c : Ck) (bs : List Nat) : Ck := bs.foldl Ck.add c

def fletcher (bs : List Nat) : Ck := Ck.zero.addAll bs

end Ubx

import UbxModel.Model.Server
/-! What the source-level translation of the frame registry (`tools/pysrc2lean_factory.py` → `Gen/SrcFactory.lean`) is written over: a
    Python `dict`, a frame class as the registry sees it, and the two things a frame class does that are modelled - `cls()` and
    `obj.unpack()`. -/
namespace Py

/-- a `dict`: the items in insertion order -/
abbrev Dict (κ ν : Type) := List (κ × ν)

/-- `d[k] = v`: the value is replaced where the key already is (it keeps its place), otherwise the item is appended -/
def Dict.setitem {κ ν : Type} [DecidableEq κ] : Dict κ ν → κ → ν → Dict κ ν
  | [], k, v => [(k, v)]
  | (k', v') :: rest, k, v => if k' = k then (k', v) :: rest else (k', v') :: Dict.setitem rest k v

/-- `d[k]`: `KeyError` for a key that is not there -/
def Dict.getitem {κ ν : Type} [DecidableEq κ] : Dict κ ν → κ → Except Ubx.Exc ν
  | [], _ => .error .keyError
  | (k', v') :: rest, k => if k' = k then .ok v' else Dict.getitem rest k

namespace Factory
open Ubx

/-- a frame class: its `CID`, and what the model of the registry knows about it (its name, which payloads `unpack` accepts) -/
structure Class where
  cid : Cid
  info : ClassInfo

/-- `self.__frames` -/
abbrev Frames := Dict Cid Class

/-- `cls()`: a frame of that class with no data yet -/
def instantiate (c : Class) : RFrame := ⟨c.cid, c.info.tag, []⟩

/-- `obj.unpack()`: the class's decoder on the data the object holds.  The three ways a payload can fail to decode (`ValueError`,
    `struct.error`, `AssertionError`) are one kind in the model of the registry (cf. `Py.excIn`). -/
def unpack (c : Class) (obj : RFrame) : Except Exc Unit :=
  if c.info.decodable obj.payload then .ok () else .error .valueError

end Factory
end Py

import UbxModel.Model.Fields
/-! What the source-level translation of the base renderers (`tools/pysrc2lean_str.py` → `Gen/SrcStr.lean`) is written over: an item as
    `__str__` sees it, the formatting of a value (modelled), the loop over the items in their order. -/
namespace Py.Str
open Ubx

/-- an item as the renderers see it -/
structure Obj where
  name : String
  isPadding : Bool := false
  fmt_string : Option String := none      -- the class attribute of the X types (`'02x'`, `'04x'`, `'08x'`), if the class has one
  value : Val := .int 0

/-- `f'{v}'`: an integer in decimal, a text as it is (`Val.str` holds the UTF-8 bytes of the text) -/
def fmtPlain : Val → String
  | .int v => toString v
  | .str s => String.mk (s.map fun b => Char.ofNat b)

/-- `f'{v:{spec}}'`: zero-padded lower-case hexadecimal for the specifications the X types use; a text under such a specification is a
    `ValueError`, an unknown specification too; a negative integer keeps its sign -/
def fmtSpec (v : Val) (spec : String) : Except Exc String :=
  match v with
  | .str _ => .error .valueError
  | .int z =>
    let width := if spec = "02x" then some 2 else if spec = "04x" then some 4 else if spec = "08x" then some 8 else if spec = "016x" then some 16 else none
    match width with
    | none => .error .valueError
    | some w =>
      let digits := (Nat.toDigits 16 z.natAbs)
      let body := String.mk (List.replicate (w - digits.length - (if z < 0 then 1 else 0)) '0' ++ digits)
      .ok ((if z < 0 then "-" else "") ++ body)

/-- `for (_, v) in <the items in their order>: res = body(v, res)` -/
def forItems : List Obj → String → (Obj → String → Except Exc String) → Except Exc String
  | [], res, _ => .ok res
  | v :: rest, res, body => body v res >>= fun res' => forItems rest res' body

end Py.Str

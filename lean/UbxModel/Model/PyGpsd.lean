import UbxModel.Model.Gpsd
import UbxModel.Model.PyServer
/-! What the source-level translation of the gpsd handshake (`tools/pysrc2lean_gpsd.py` → `Gen/SrcGpsd.lean`) is written over:
    CPython's subscript, iteration, membership and comparison on a decoded JSON value of any shape (the dynamic typing the
    handshake code relies on), a `for` over such a value with `break`, `try … except (A, B): pass`, and the attributes of the
    gpsd back-end object the handshake reads and writes.

    Modelled, not translated: `bytes.decode()`, `str.splitlines()` and `json.loads()` - a received chunk is presented as what they
    made of it (`Ubx.Gpsd.Chunk`), exactly as in the hand-written model. -/
namespace Py.Gpsd
open Ubx Ubx.Gpsd

/-- the attributes of `server.GnssUBlox` the handshake uses.  A `str` attribute is a JSON string; `None` is `none`. -/
structure Server where
  device_name : Option String := none      -- what the constructor was given (`None`, or a `str` - possibly empty)
  selected_device : Option Json := none
  enabled : Bool := false
  release : Option Json := none
deriving Inhabited

abbrev Res (ρ : Type) := Except Py.Abort ρ × Server

def finish {σ ρ : Type} (proj : σ → Server) (dflt : ρ) : Py.Ctl σ ρ → Res ρ
  | .next s => (.ok dflt, proj s)
  | .brk s => (.ok dflt, proj s)
  | .ret r s => (.ok r, proj s)
  | .abort a s => (.error a, proj s)

/-- `j[key]` with a `str` key: a dict answers (or raises `KeyError`); a list, a string, a number, `true`/`false`/`null` raise
    `TypeError` -/
def subscript (j : Json) (key : String) : Except Exc Json :=
  match j with
  | .obj kvs => match Json.get kvs key with
                | some v => .ok v
                | none => .error .keyError
  | _ => .error .typeError

/-- the keys of a dict in the order `json.loads` leaves them: first occurrence of each -/
def keysOf : List (String × Json) → List String
  | [] => []
  | (k, _) :: rest => k :: (keysOf rest).filter (· != k)

/-- `for x in j`: the elements of a list, the keys of a dict, the characters of a string; anything else raises `TypeError` -/
def iter (j : Json) : Except Exc (List Json) :=
  match j with
  | .arr xs => .ok xs
  | .obj kvs => .ok ((keysOf kvs).map .str)
  | .str s => .ok (s.toList.map fun c => .str (String.singleton c))
  | _ => .error .typeError

/-- `isinstance(j, dict)` -/
def isDict : Json → Bool
  | .obj _ => true
  | _ => false

/-- `key in j` for a value already known to be a dict -/
def hasKey (j : Json) (key : String) : Bool :=
  match j with
  | .obj kvs => (Json.get kvs key).isSome
  | _ => false

/-- `j == 'text'`: only the string with that text is equal to it -/
def eqStr (j : Json) (s : String) : Bool :=
  match j with
  | .str t => t == s
  | _ => false

/-- truthiness of an optional `str` attribute: `None` and `''` are falsy -/
def truthyStr : Option String → Bool
  | some s => s != ""
  | none => false

/-- `for x in xs: body` with `break` -/
def forList {α σ ρ : Type} (body : α → σ → Py.Ctl σ ρ) : List α → σ → Py.Ctl σ ρ
  | [], s => .next s
  | x :: rest, s =>
    match body x s with
    | .next s' => forList body rest s'
    | .brk s' => .next s'
    | .ret r s' => .ret r s'
    | .abort a s' => .abort a s'

/-- `try: body  except (A, B): handler` - what the body changed before it raised stays changed -/
def tryExcept {σ ρ : Type} (body : Py.Ctl σ ρ) (handles : Exc → Bool) (handler : σ → Py.Ctl σ ρ) : Py.Ctl σ ρ :=
  match body with
  | .abort (.exc e) s => if handles e then handler s else .abort (.exc e) s
  | c => c

/-- `json.loads(entry)` as the model presents it: the value, `ValueError` (`JSONDecodeError`), or `RecursionError` -/
def loads : Line → Except Exc Json
  | .notJson => .error .valueError
  | .tooDeep => .error .recursionError
  | .value j => .ok j

end Py.Gpsd

/-! Shared by `Driver.lean` (model) and `SpecDriver.lean` (specification only): hex, the payload generator
    and the digest that both sides of the correspondence check expand for bulk cases, the line loop.
    Imports nothing from `Model/`, `Gen/` or `Spec/`. -/
namespace DriverCommon

def hexVal (c : Char) : Nat :=
  if '0' ≤ c ∧ c ≤ '9' then c.toNat - 48 else if 'a' ≤ c ∧ c ≤ 'f' then c.toNat - 87 else c.toNat - 55

def parseHex (s : String) : List Nat :=
  let rec go (acc : List Nat) : List Char → List Nat
    | a :: b :: r => go ((hexVal a * 16 + hexVal b) :: acc) r
    | _ => acc.reverse
  go [] s.toList

def hexDigit (n : Nat) : Char := if n < 10 then Char.ofNat (48 + n) else Char.ofNat (87 + n)
def toHex (bs : List Nat) : String := String.mk (bs.flatMap fun b => [hexDigit (b / 16), hexDigit (b % 16)])

def parseInt (s : String) : Int := if s.startsWith "-" then -((String.ofList (s.toList.drop 1)).toNat! : Int) else (s.toNat! : Int)

/-- `x' = (1103515245 x + 12345) mod 2^31`, byte = bits 16..23; mode 1: all FF; mode 2: B5 62 repeated -/
def lcgPayload (n seed mode : Nat) : List Nat :=
  if mode = 1 then List.replicate n 0xFF
  else if mode = 2 then (List.range n).map fun i => if i % 2 = 0 then 0xB5 else 0x62
  else
    let rec go : Nat → Nat → List Nat → List Nat
      | 0, _, acc => acc.reverse
      | k + 1, x, acc =>
        let x' := (1103515245 * x + 12345) % 2147483648
        go k x' (((x' >>> 16) &&& 0xFF) :: acc)
    go n seed []

def digest (bs : List Nat) : Nat := bs.foldl (fun h b => (h * 31 + b) % 4294967296) 0

/-- `len=… head=… tail=… h=…` of a serialised frame -/
def summary (bs : List Nat) : String :=
  s!"len={bs.length} head={toHex (bs.take 8)} tail={toHex (bs.drop (bs.length - 2))} h={digest bs}"

partial def loop (handle : String → String) (h : IO.FS.Stream) (out : IO.FS.Stream) : IO Unit := do
  let line ← h.getLine
  if line.isEmpty then return ()
  out.putStrLn (handle line)
  loop handle h out

end DriverCommon

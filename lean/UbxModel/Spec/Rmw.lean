import UbxModel.Spec.Layouts
import UbxModel.Spec.Read
/-! Specification of "encoding reproduces the payload except that reserved bytes come out as zero" and of
    "after one field is changed the payload differs only in that field's bytes": stated over the
    prescribed layouts (`Spec.Layout`), independent of the model and of `Gen/`. -/
namespace Spec

/-- is byte `k` inside a named field of the layout? -/
def covered (l : Layout) (k : Nat) : Bool := l.any fun (_, off, w, _) => decide (off ≤ k ∧ k < off + w)

/-- the payload with every byte outside the named fields (the reserved ranges) set to zero -/
def zeroReserved (l : Layout) (pl : List Nat) : List Nat :=
  (List.range pl.length).map fun k => if covered l k then pl.getD k 0 else 0

/-- a value assigned to a field -/
inductive FVal | num (v : Int) | text (s : List Nat)

/-- the `w` bytes of an in-range value: little-endian two's complement resp. text padded with NULs -/
def fieldBytes (w : Nat) : FVal → List Nat
  | .num v => (List.range w).map fun i => ((v % (2 ^ (8 * w) : Nat)).toNat / 2 ^ (8 * i)) % 256
  | .text s => s ++ List.replicate (w - s.length) 0

/-- read-modify-write: `zeroReserved` of the original, with the bytes of the one field replaced -/
def rmw (l : Layout) (pl : List Nat) (field : String) (v : FVal) : Option (List Nat) :=
  match l.find? fun e => e.1 == field with
  | none => none
  | some (_, off, w, _) =>
    let z := zeroReserved l pl
    let fb := fieldBytes w v
    some ((List.range z.length).map fun k => if off ≤ k ∧ k < off + w then fb.getD (k - off) 0 else z.getD k 0)

end Spec

/-! Specification of the UBX wire format (u-blox interface description, "UBX frame structure"
    and "UBX checksum").  Independent of the model: no folding algorithm here. -/
namespace Spec

/-- running sums `x₀, x₀+x₁, x₀+x₁+x₂, …` (the successive CK_A values before reduction) -/
def prefixSums : Nat → List Nat → List Nat
  | _, [] => []
  | acc, x :: xs => (acc + x) :: prefixSums (acc + x) xs

/-- CK_A: sum of the bytes modulo 256 -/
def ckA (s : List Nat) : Nat := s.sum % 256
/-- CK_B: sum of the successive CK_A values modulo 256 -/
def ckB (s : List Nat) : Nat := (prefixSums 0 s).sum % 256

/-- the bytes the checksum covers: class, id, 16-bit little-endian length, payload -/
def body (cls id : Nat) (pl : List Nat) : List Nat :=
  cls :: id :: (pl.length % 256) :: (pl.length / 256) :: pl

/-- the exact frame: sync, class, id, length (LE), payload, CK_A, CK_B -/
def wire (cls id : Nat) (pl : List Nat) : List Nat :=
  [0xB5, 0x62] ++ body cls id pl ++ [ckA (body cls id pl), ckB (body cls id pl)]

def Bytes (s : List Nat) : Prop := ∀ b ∈ s, b < 256

end Spec

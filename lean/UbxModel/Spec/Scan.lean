import UbxModel.Spec.Wire
/-! Reference scanner: what a UBX receiver-side parser has to make of a byte stream, written as a
    whole-stream function that slices the input (no byte-wise state).  Used as the oracle of the
    failing-input search for C02/C03/C18; independent of the model. -/
namespace Spec

inductive Ev
  | frame (cls id : Nat) (pl : List Nat)     -- a checksum-valid frame
  | bad                                       -- a frame-shaped sequence whose checksum does not match
deriving DecidableEq, Repr

/-- scan from the left: at a sync pair with a complete header, take the announced frame (or drop the
    six header bytes if it announces more than `maxLen`); anywhere else move on by one byte; an
    incomplete frame at the end yields nothing -/
def scanFuel (maxLen : Nat) : Nat → List Nat → List Ev
  | 0, _ => []
  | _, [] => []
  | fuel + 1, b :: rest =>
    if b ≠ 0xB5 then scanFuel maxLen fuel rest
    else match rest with
      | [] => []
      | c :: r2 =>
        if c ≠ 0x62 then scanFuel maxLen fuel rest
        else match r2 with
          | cls :: id :: l1 :: l2 :: r3 =>
            let len := l1 + 256 * l2
            if len > maxLen then scanFuel maxLen fuel r3
            else if r3.length < len + 2 then []
            else
              let pl := r3.take len
              let ev := if r3.getD len 0 = ckA (body cls id pl) ∧ r3.getD (len + 1) 0 = ckB (body cls id pl)
                        then Ev.frame cls id pl else Ev.bad
              ev :: scanFuel maxLen fuel (r3.drop (len + 2))
          | _ => []

def scan (maxLen : Nat) (s : List Nat) : List Ev := scanFuel maxLen (s.length + 1) s

end Spec

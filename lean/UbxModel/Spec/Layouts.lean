/-! Message layouts transcribed from the u-blox interface descriptions
    (u-blox 8 / M8 Receiver Description incl. Protocol Specification, protocol 15–23.01; for
    CFG-VALGET/VALSET and the UPD-SOS / ESF messages also the F9 / M9 interface descriptions).
    One entry per *named* field: (API name used by ubxlib, byte offset, width in bytes, type).
    Reserved ranges are not listed.  Hand-written; independent of the code and of `Gen/`. -/
namespace Spec

/-- U = unsigned / bit field (U1 U2 U4 X1 X2 X4), I = two's complement (I1 I2 I4), CH = text -/
inductive Ty | u | i | ch
deriving DecidableEq, Repr

abbrev Layout := List (String × Nat × Nat × Ty)

/-- UBX-ACK-ACK / UBX-ACK-NAK (2 bytes): clsID U1, msgID U1 -/
def UbxAckAck : Layout := [("clsId", 0, 1, .u), ("msgId", 1, 1, .u)]
def UbxAckNak : Layout := [("clsId", 0, 1, .u), ("msgId", 1, 1, .u)]

/-- UBX-CFG-CFG (12 bytes): clearMask X4, saveMask X4, loadMask X4 -/
def UbxCfgCfgAction : Layout := [("clearMask", 0, 4, .u), ("saveMask", 4, 4, .u), ("loadMask", 8, 4, .u)]

/-- UBX-CFG-ESFALG (12 bytes): bitfield U4, yaw U4, pitch I2, roll I2 -/
def UbxCfgEsfAlg : Layout := [("bitfield", 0, 4, .u), ("yaw", 4, 4, .u), ("pitch", 8, 2, .i), ("roll", 10, 2, .i)]

/-- UBX-CFG-ESFLA, one lever arm (12 bytes): version U1, numConfigs U1, reserved U1[2],
    leverArmType U1, reserved U1, leverArmX/Y/Z I2 -/
def UbxCfgEsflaSet : Layout := [("version", 0, 1, .u), ("numConfigs", 1, 1, .u), ("leverArmType", 4, 1, .u),
  ("leverArmX", 6, 2, .i), ("leverArmY", 8, 2, .i), ("leverArmZ", 10, 2, .i)]
def UbxCfgEsfla_header : Layout := [("version", 0, 1, .u), ("numConfigs", 1, 1, .u)]
/-- block `i` starts at `4 + 8·i` -/
def UbxCfgEsfla_block (i : Nat) : Layout := [(s!"leverArmType_{i}", 4 + 8 * i, 1, .u),
  (s!"leverArmX_{i}", 4 + 8 * i + 2, 2, .i), (s!"leverArmY_{i}", 4 + 8 * i + 4, 2, .i), (s!"leverArmZ_{i}", 4 + 8 * i + 6, 2, .i)]

/-- UBX-CFG-GNSS (4 + 8·numConfigBlocks): msgVer U1, numTrkChHw U1, numTrkChUse U1, numConfigBlocks U1;
    block: gnssId U1, resTrkCh U1, maxTrkCh U1, reserved U1, flags X4 -/
def UbxCfgGnss_header : Layout := [("msgVer", 0, 1, .u), ("numTrkChHw", 1, 1, .u), ("numTrkChUse", 2, 1, .u),
  ("numConfigBlocks", 3, 1, .u)]
def UbxCfgGnss_block (i : Nat) : Layout := [(s!"gnssId_{i}", 4 + 8 * i, 1, .u), (s!"resTrkCh_{i}", 4 + 8 * i + 1, 1, .u),
  (s!"maxTrkCh_{i}", 4 + 8 * i + 2, 1, .u), (s!"flags_{i}", 4 + 8 * i + 4, 4, .u)]

/-- UBX-CFG-NAV5 (36 bytes) -/
def UbxCfgNav5 : Layout := [("mask", 0, 2, .u), ("dynModel", 2, 1, .u), ("fixMode", 3, 1, .u), ("fixedAlt", 4, 4, .i),
  ("fixedAltVar", 8, 4, .u), ("minElev", 12, 1, .i), ("drLimit", 13, 1, .u), ("pDop", 14, 2, .u), ("tDop", 16, 2, .u),
  ("pAcc", 18, 2, .u), ("tAcc", 20, 2, .u), ("staticHoldThresh", 22, 1, .u), ("dgpsTimeOut", 23, 1, .u),
  ("cnoThreshNumSVs", 24, 1, .u), ("cnoThresh", 25, 1, .u), ("pAccAdr", 26, 2, .u), ("staticHoldMaxDist", 28, 2, .u),
  ("utcStandard", 30, 1, .u)]

/-- UBX-CFG-NAVX5 version 3 (44 bytes) -/
def UbxCfgNavx5 : Layout := [("version", 0, 2, .u), ("mask1", 2, 2, .u), ("mask2", 4, 4, .u), ("minSVs", 10, 1, .u),
  ("maxSVs", 11, 1, .u), ("minCN0", 12, 1, .u), ("iniFix3D", 14, 1, .u), ("ackAiding", 17, 1, .u),
  ("wknRollover", 18, 2, .u), ("sigAttenCompMode", 20, 1, .u), ("usePPP", 26, 1, .u), ("aopCfg", 27, 1, .u),
  ("aopOrbMaxErr", 30, 2, .u), ("useAdr", 39, 1, .u)]

/-- UBX-CFG-NMEA version 1 (20 bytes) -/
def UbxCfgNmea : Layout := [("filter", 0, 1, .u), ("nmeaVersion", 1, 1, .u), ("numSV", 2, 1, .u), ("flags", 3, 1, .u),
  ("gnssToFilter", 4, 4, .u), ("svNumbering", 8, 1, .u), ("mainTalkerId", 9, 1, .u), ("gsvTalkerId", 10, 1, .u),
  ("version", 11, 1, .u), ("bdsTalkerId", 12, 2, .ch)]

/-- UBX-CFG-PRT for a UART (20 bytes); poll request with port id (1 byte) -/
def UbxCfgPrtUart : Layout := [("PortId", 0, 1, .u), ("txReady", 2, 2, .u), ("mode", 4, 4, .u), ("baudRate", 8, 4, .u),
  ("inProtoMask", 12, 2, .u), ("outProtoMask", 14, 2, .u), ("flags", 16, 2, .u)]
def UbxCfgPrtPoll : Layout := [("PortId", 0, 1, .u)]

/-- UBX-CFG-RATE (6 bytes) -/
def UbxCfgRate : Layout := [("measRate", 0, 2, .u), ("navRate", 2, 2, .u), ("timeRef", 4, 2, .u)]

/-- UBX-CFG-RST (4 bytes) -/
def UbxCfgRstAction : Layout := [("navBbrMask", 0, 2, .u), ("resetMode", 2, 1, .u)]

/-- UBX-CFG-TP5 (32 bytes): tpIdx U1, version U1, reserved U1[2], antCableDelay I2, rfGroupDelay I2,
    freqPeriod U4, freqPeriodLock U4, pulseLenRatio U4, pulseLenRatioLock U4, userConfigDelay I4, flags X4 -/
def UbxCfgTp5 : Layout := [("tpIdx", 0, 1, .u), ("version", 1, 1, .u), ("antCableDelay", 4, 2, .i), ("rfGroupDelay", 6, 2, .i),
  ("freqPeriod", 8, 4, .u), ("freqPeriodLock", 12, 4, .u), ("pulseLenRatio", 16, 4, .u), ("pulseLenRatioLock", 20, 4, .u),
  ("userConfigDelay", 24, 4, .i), ("flags", 28, 4, .u)]
def UbxCfgTp5Poll : Layout := [("tpIdx", 0, 1, .u)]

/-- UBX-ESF-ALG (16 bytes) -/
def UbxEsfAlg : Layout := [("iTow", 0, 4, .u), ("version", 4, 1, .u), ("flags", 5, 1, .u), ("error", 6, 1, .u),
  ("yaw", 8, 4, .u), ("pitch", 12, 2, .i), ("roll", 14, 2, .i)]

/-- UBX-ESF-MEAS, first data word (12 bytes) -/
def UbxEsfMeas : Layout := [("timeTag", 0, 4, .u), ("flags", 4, 2, .u), ("id", 6, 2, .u), ("data", 8, 4, .u)]

/-- UBX-ESF-STATUS (16 + 4·numSens) -/
def UbxEsfStatus_header : Layout := [("iTow", 0, 4, .u), ("version", 4, 1, .u), ("initStatus1", 5, 1, .u),
  ("initStatus2", 6, 1, .u), ("fusionMode", 12, 1, .u), ("numSens", 15, 1, .u)]
def UbxEsfStatus_block (i : Nat) : Layout := [(s!"sensStatus1_{i}", 16 + 4 * i, 1, .u), (s!"sensStatus2_{i}", 16 + 4 * i + 1, 1, .u),
  (s!"freq_{i}", 16 + 4 * i + 2, 1, .u), (s!"faults_{i}", 16 + 4 * i + 3, 1, .u)]

/-- UBX-MGA-ACK-DATA0 (8 bytes) -/
def UbxMgaAckData0 : Layout := [("type", 0, 1, .u), ("version", 1, 1, .u), ("infoCode", 2, 1, .u), ("msgId", 3, 1, .u),
  ("msgPayloadStart", 4, 4, .u)]

/-- UBX-MGA-INI-TIME_UTC (24 bytes) -/
def UbxMgaIniTimeUtc : Layout := [("type", 0, 1, .u), ("version", 1, 1, .u), ("ref", 2, 1, .u), ("leapSecs", 3, 1, .i),
  ("year", 4, 2, .u), ("month", 6, 1, .u), ("day", 7, 1, .u), ("hour", 8, 1, .u), ("minute", 9, 1, .u), ("second", 10, 1, .u),
  ("ns", 12, 4, .u), ("tAccS", 16, 2, .u), ("tAccNs", 20, 4, .u)]

/-- UBX-MON-VER (40 + 30·N): swVersion CH[30], hwVersion CH[10], extension CH[30]… -/
def UbxMonVer_header : Layout := [("swVersion", 0, 30, .ch), ("hwVersion", 30, 10, .ch)]
def UbxMonVer_block (i : Nat) : Layout := [(s!"extension_{i}", 40 + 30 * i, 30, .ch)]

/-- UBX-NAV-STATUS (16 bytes) -/
def UbxNavStatus : Layout := [("iTow", 0, 4, .u), ("gpsFix", 4, 1, .u), ("flags", 5, 1, .u), ("fixStat", 6, 1, .u),
  ("flags2", 7, 1, .u), ("ttff", 8, 4, .u), ("msss", 12, 4, .u)]

/-- UBX-UPD-SOS poll response (8 bytes) and command (4 bytes); the reserved bytes are exposed by
    ubxlib as `res*` fields -/
def UbxUpdSos : Layout := [("cmd", 0, 1, .u), ("res1_1", 1, 1, .u), ("res1_2", 2, 1, .u), ("res1_3", 3, 1, .u),
  ("response", 4, 1, .u), ("res2_1", 5, 1, .u), ("res2_2", 6, 1, .u), ("res2_3", 7, 1, .u)]
def UbxUpdSosAction : Layout := [("cmd", 0, 1, .u), ("res1_1", 1, 1, .u), ("res1_2", 2, 1, .u), ("res1_3", 3, 1, .u)]

end Spec

/-! Specification of "the value found at an offset, width, signedness and little-endian byte order"
    (u-blox interface description, "UBX data types": U1 U2 U4 I1 I2 I4 X1 X2 X4, little endian,
    two's complement).  Independent of the model. -/
namespace Spec

/-- little-endian number -/
def leNat : List Nat → Nat
  | [] => 0
  | b :: bs => b + 256 * leNat bs

/-- the `w`-byte number at offset `off` of payload `s`, two's complement if `signed` -/
def read (s : List Nat) (off w : Nat) (signed : Bool) : Int :=
  let n := leNat ((s.drop off).take w)
  if signed ∧ n ≥ 2 ^ (8 * w - 1) then (n : Int) - (2 ^ (8 * w) : Nat) else (n : Int)

/-- the text at offset `off`, `n` bytes, without the trailing NUL padding -/
def readText (s : List Nat) (off n : Nat) : List Nat :=
  ((((s.drop off).take n).reverse).dropWhile (· == 0)).reverse

end Spec

/-! What the u-blox protocol prescribes for the actions the convenience helpers stand for
    (UBX-CFG-CFG, UBX-CFG-RST, UBX-CFG-RATE, UBX-MGA-INI-TIME_UTC, UBX-UPD-SOS).  Hand-written. -/
namespace Spec

/-- UBX-CFG-CFG: save current configuration sections `m` → saveMask = m, nothing cleared or loaded;
    revert sections `m` to default → clearMask = m and loadMask = m, nothing saved.
    (clearMask, saveMask, loadMask) -/
def cfgSave (m : Nat) : Nat × Nat × Nat := (0, m, 0)
def cfgRevert (m : Nat) : Nat × Nat × Nat := (m, 0, m)

/-- UBX-CFG-RST (navBbrMask, resetMode): warm start = 0x0001, cold start = 0xFFFF, hot start = 0x0000;
    controlled software reset = 0x01, controlled GNSS stop = 0x08, controlled GNSS start = 0x09 -/
def rstWarm : Nat × Nat := (0x0001, 0x01)
def rstCold : Nat × Nat := (0xFFFF, 0x01)
def rstGnssStart : Nat × Nat := (0x0000, 0x09)
def rstGnssStop : Nat × Nat := (0x0000, 0x08)

/-- UBX-CFG-RATE for `r` navigation solutions per second from every measurement:
    measRate = ⌊1000 / r⌋ ms, navRate = 1 cycle -/
def rate (r : Nat) : Nat × Nat := (1000 / r, 1)

/-- …and for `num/den` solutions per second: the measurement period is the largest whole number of milliseconds that is
    not longer than `den/num` seconds -/
def rateQ (num den : Nat) : Nat × Nat := (1000 * den / num, 1)

/-- UBX-MGA-INI-TIME_UTC payload (24 bytes) for a UTC date/time with unknown leap seconds, 10 s accuracy:
    type 0x10, version 0, ref 0, leapSecs 0x80 (= −128: unknown), year (U2 LE), month, day, hour, minute,
    second, reserved, ns = 0 (U4), tAccS = 10 (U2), reserved[2], tAccNs = 0 (U4) -/
def iniTimeUtc (year month day hour minute second : Nat) : List Nat :=
  [0x10, 0x00, 0x00, 0x80, year % 256, year / 256, month, day, hour, minute, second, 0,
   0, 0, 0, 0, 10, 0, 0, 0, 0, 0, 0, 0]

/-- UBX-UPD-SOS command: 0 = create backup in flash, 1 = clear backup -/
def sosBackup : Nat := 0
def sosClear : Nat := 1

end Spec

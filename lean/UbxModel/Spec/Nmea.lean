/-! Specification of NMEA 0183 sentence validity, as a predicate on positions of a byte string:
    `$`, a body free of `$` and `*`, `*`, two hexadecimal digits (either case) whose value is the
    XOR of the body bytes.  Independent of the model. -/
namespace Spec.Nmea

/-- value of an ASCII hexadecimal digit -/
def hexVal (c : Nat) : Option Nat :=
  if 48 ≤ c ∧ c ≤ 57 then some (c - 48)          -- '0'..'9'
  else if 65 ≤ c ∧ c ≤ 70 then some (c - 55)     -- 'A'..'F'
  else if 97 ≤ c ∧ c ≤ 102 then some (c - 87)    -- 'a'..'f'
  else none

/-- do the bytes after a `$` (XOR of the body so far: `x`) complete a valid sentence? -/
def completes (x : Nat) : List Nat → Bool
  | [] => false
  | c :: rest =>
    if c = 36 then false                          -- '$' ends the body without a checksum
    else if c = 42 then                           -- '*'
      match rest with
      | h1 :: h2 :: _ =>
        match hexVal h1, hexVal h2 with
        | some v1, some v2 => 16 * v1 + v2 == x
        | _, _ => false
      | _ => false
    else completes (x ^^^ c) rest

/-- number of positions at which a valid sentence starts -/
def count : List Nat → Nat
  | [] => 0
  | c :: rest => (if c = 36 ∧ completes 0 rest then 1 else 0) + count rest

end Spec.Nmea

/-! UTF-8 as RFC 3629 / the Unicode standard define it: the encoding of a sequence of scalar values. Independent of the
    model's byte-range test (`Ubx.validUtf8`); `Proofs/Utf8.lean` proves that the two agree. -/
namespace Ubx.Spec

/-- UTF-8 encoding of one Unicode scalar value (RFC 3629 §3) -/
def encodeScalar (c : Nat) : List Nat :=
  if c < 0x80 then [c]
  else if c < 0x800 then [0xC0 + c / 64, 0x80 + c % 64]
  else if c < 0x10000 then [0xE0 + c / 4096, 0x80 + c / 64 % 64, 0x80 + c % 64]
  else [0xF0 + c / 262144, 0x80 + c / 4096 % 64, 0x80 + c / 64 % 64, 0x80 + c % 64]

/-- what a Python `str` consists of when it came out of `bytes.decode()`: code points, none of them a surrogate -/
def isScalar (c : Nat) : Prop := c < 0xD800 ∨ (0xE000 ≤ c ∧ c < 0x110000)

def encodeText (cs : List Nat) : List Nat := cs.flatMap encodeScalar

end Ubx.Spec

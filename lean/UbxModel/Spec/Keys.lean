/-! Configuration keys: what the u-blox interface description (F9/M9, "Configuration interface")
    says about key ids and about the published keys.  Hand-written, independent of the code. -/
namespace Spec

/-- key id layout: bit 31 reserved, bits 30..28 size, bits 27..24 reserved, bits 23..16 group,
    bits 15..12 reserved, bits 11..0 item -/
def keyId (size group item : Nat) : Nat := size * 2 ^ 28 + group * 2 ^ 16 + item

/-- size code → storage size in bits (1: one bit, 2: one byte, 3: two, 4: four, 5: eight bytes) -/
def sizeBits : Nat → Option Nat
  | 1 => some 1 | 2 => some 8 | 3 => some 16 | 4 => some 32 | 5 => some 64 | _ => none

/-- keys whose value type is a signed integer, among those ubxlib publishes:
    CFG-SFIMU-IMU_MNTALG_PITCH (I2) and CFG-SFIMU-IMU_MNTALG_ROLL (I2); every other published key is
    L, U1, U2, U4, E1 or X-typed -/
def documentedSigned (key : Nat) : Bool := key == 0x3006002e || key == 0x3006002f

end Spec

import UbxModel.Proofs.HeapRefines
import UbxModel.Proofs.ParserFilter
/-!
# C11 — Only frames matching the current filter are queued; queued packets never change
-/
namespace C11
open Ubx

/-- **filter.** When the last byte of a checksum-valid frame is processed, the frame is queued if and
    only if its class/id is in the filter *of the parser on which that step is taken* — i.e. the filter
    in force at that moment — while `frames_rx` counts it regardless. -/
theorem queued_iff (p : Parser) (d : Nat) (hst : p.st = .crc2) (hok : p.ck.a = p.cka ∧ p.ck.b = d) :
    (p.step d).framesRx = p.framesRx + 1 ∧
    (p.step d).queue = (if filterPasses p.filter ⟨p.msgClass, p.msgId⟩
                        then p.queue ++ [.data ⟨p.msgClass, p.msgId⟩ p.msgData] else p.queue) := by
  rw [step_crc2_ok p d hst hok]; exact ⟨rfl, rfl⟩

/-- no filter, or an empty one, passes nothing; otherwise membership of the class/id pair decides -/
theorem filter_semantics (cid : Cid) :
    filterPasses none cid = false ∧ filterPasses (some []) cid = false ∧
    ∀ l, filterPasses (some l) cid = true ↔ cid ∈ l := by
  refine ⟨rfl, rfl, fun l => ?_⟩
  simp [filterPasses]

/-- changing the filter, restarting and emptying do not touch the parsing state or each other -/
theorem set_filters_only (p : Parser) (cids : List Cid) :
    (p.setFilters cids).filter = some cids ∧ (p.setFilters cids).queue = p.queue ∧
    (p.setFilters cids).st = p.st ∧ (p.setFilters cids).framesRx = p.framesRx := ⟨rfl, rfl, rfl, rfl⟩
theorem set_filter_single (p : Parser) (cid : Cid) : (p.setFilter cid).filter = some [cid] := rfl

/-- **FIFO.** `packet()` returns the oldest queued packet and removes exactly it; parsing only ever
    appends at the tail (C02/C03: `queue = old ++ new`). -/
theorem packet_fifo (p : Parser) (x : Packet) (q : List Packet) (h : p.queue = x :: q) :
    p.packet = (some x, { p with queue := q }) := by
  simp [Parser.packet, h]

/-- an empty queue yields the `(None, None)` sentinel and changes nothing -/
theorem packet_sentinel (p : Parser) (h : p.queue = []) : p.packet = (none, p) := by
  simp [Parser.packet, h]

/-- `empty_queue()` discards everything queued and nothing else -/
theorem empty_queue (p : Parser) :
    p.emptyQueue.queue = [] ∧ p.emptyQueue.st = p.st ∧ p.emptyQueue.filter = p.filter ∧
    p.emptyQueue.framesRx = p.framesRx := ⟨rfl, rfl, rfl, rfl⟩

/-- **refinement.** With Python's object identity made explicit (a heap of bytearrays, packets holding
    references), each step is a step of the value-level parser — so everything proved about `Parser`
    (C02, C03, C09) holds for what dereferencing the queue yields. -/
theorem heap_refines (h : HParser) (hw : h.WF) (d : Nat) : (h.step d).abs = h.abs.step d ∧ (h.step d).WF :=
  ⟨h.abs_step hw d, (h.step_preserves hw d).1⟩

/-- **payloads never change.** From a newly created parser, for every history of `process`,
    `set_filters`, `empty_queue`, `packet` and `restart`: a payload object that has been handed out
    keeps its contents through everything that follows. -/
theorem handed_out_never_changes (ops more : List Op) :
    let h := ops.foldl HParser.apply {}
    ∀ b ∈ h.out, ((more.foldl HParser.apply h).bufs[b]? = h.bufs[b]?) := by
  intro h b hb
  have hw : h.WF := (HParser.history_stable {} HParser.wf_init ops).1
  exact (HParser.history_stable h hw more).2.1 b hb

/-- … and a payload keeps its contents while it is queued (until `empty_queue` drops it) -/
theorem queued_unchanged_by_parsing (h : HParser) (hw : h.WF) (bs : List Nat) :
    ∀ b ∈ h.shared, (h.process bs).bufs[b]? = h.bufs[b]? :=
  (h.process_preserves hw bs).2.1

/-- non-vacuity: two frames; the first payload is handed out, then the second frame is parsed into a
    different cell -/
example :
    let ack := [0xB5, 0x62, 5, 1, 2, 0, 6, 1, 0x0F, 0x38]
    let h := [Op.setFilters [⟨5, 1⟩], .process ack, .packet, .process ack, .packet].foldl HParser.apply {}
    h.out = [1, 2] ∧ h.bufs = [[], [6, 1], [6, 1]] := by decide

end C11

/-! ### the filter in force — over operation histories -/
namespace C11
open Ubx

/-- the operations on the value-level parser -/
def applyOp (p : Parser) : Op → Parser
  | .process c => p.process c
  | .setFilters f => p.setFilters f
  | .emptyQueue => p.emptyQueue
  | .packet => p.packet.2
  | .restart => p.restart

def opBytes : Op → List Nat
  | .process c => c
  | _ => []

/-- **what a byte queues.** Whatever the history: a step appends a data packet iff this byte completes
    a checksum-valid frame (`stepEvent`, a function of the filter-free, queue-free core of the state)
    *and* the filter in force at this very step contains its class/id; an error marker iff it completes
    a frame-shaped sequence with a failing checksum; nothing otherwise. -/
theorem byte_queues (p : Parser) (d : Nat) : (p.step d).queue = p.queue ++ evQueue p.filter (stepEvent p d) :=
  step_queue_factor p d

/-- **which frames are recognised never depends on filters, on the queue or on calls between chunks**:
    after any history of `process`, `set_filters`, `empty_queue` and `packet` the core of the state is
    that of a parser that was fed the concatenated input in one piece — so `stepEvent` of every byte
    is a function of the input so far, and only `evQueue`'s filter argument is the caller's. -/
theorem recognition_ignores_history (ops : List Op) (hno : ∀ op ∈ ops, op ≠ Op.restart) (p : Parser) :
    core (ops.foldl applyOp p) = core ((core p).process (ops.flatMap opBytes)) := by
  induction ops generalizing p with
  | nil => rfl
  | cons op rest ih =>
    have hr : ∀ o ∈ rest, o ≠ Op.restart := fun o ho => hno o (by simp [ho])
    show core (rest.foldl applyOp (applyOp p op)) = _
    rw [ih hr, List.flatMap_cons, Parser.process_append]
    cases op with
    | process c =>
      show core ((core (p.process c)).process _) = core (((core p).process c).process _)
      rw [core_process ((core p).process c), ← core_process p c]
    | setFilters f => rfl
    | emptyQueue => rfl
    | packet =>
      show core ((core p.packet.2).process _) = _
      rw [core_packet]; rfl
    | restart => exact absurd rfl (hno _ (by simp))

end C11


import UbxModel.Proofs.ServerTracks
import UbxModel.Props.C03
import UbxModel.Proofs.ServerOrder
/-!
# C04 — Requests return only fresh, matching and (for CFG) acknowledged answers
(all three request kinds)
-/
namespace C04
open Ubx Spec

/-- a data packet in the queue of a new parser is a frame of the specification occurring in the
    parsed bytes, with at most 1000 payload bytes and a class/id that is in the filter (from C03) -/
theorem mem_queue_is_wire (F : List Cid) (bs : List Nat) (hb : Bytes bs) (cid : Cid) (pl : List Nat)
    (h : Packet.data cid pl ∈ ((Parser.fresh (some F)).process bs).queue) :
    ∃ pre post, bs = pre ++ wire cid.cls cid.id pl ++ post ∧ pl.length ≤ 1000 ∧ cid ∈ F := by
  obtain ⟨segs, hwf, hcons, hq, -⟩ := Ubx.sound (some F) bs hb
  rw [hq] at h
  simp only [segPackets, List.mem_flatMap] at h
  obtain ⟨g, hg, hmem⟩ := h
  obtain ⟨w1, w2, w3⟩ := C03.data_packet_is_wire (some F) g cid pl (hwf g hg) hmem
  obtain ⟨s1, s2, hs⟩ := List.append_of_mem hg
  generalize ((Parser.fresh (some F)).process bs).pending = pend at hcons
  refine ⟨segBytes s1, segBytes s2 ++ pend, ?_, w2, by simpa [filterPasses] using w3⟩
  rw [hcons, hs]
  simp [segBytes, w1, List.append_assoc]

/-- what `_check_ack_nak` accepts -/
theorem check_accepts (req : Cid) (f : RFrame) (h : checkAckNak req f ≠ .other) :
    (f.cid = ackCid ∧ ackNames f = some ((req.cls : Int), (req.id : Int))) ∨ f.cid = nakCid := by
  unfold checkAckNak at h
  split at h
  · rename_i hc
    split at h
    · rename_i hn; exact Or.inl ⟨hc, hn⟩
    · exact absurd rfl h
  · split at h
    · rename_i hc; exact Or.inr hc
    · exact absurd rfl h

/-- **C04 for `set()`.** Whatever the receiver does: `set()` returns nothing, or a frame that
    * is an ACK-ACK whose decoded `clsId`/`msgId` are the request's class and id, or an ACK-NAK;
    * was built by the class registered for its class/id (so it decoded);
    * carries class/id and payload of a frame of the specification — sync, class, id, length ≤ 1000,
      payload, matching Fletcher checksum — occurring in bytes that were received after a transmission
      of this request and parsed by a parser that had been emptied and restarted (so neither a
      checksum failure nor anything decoded or half-received earlier can be returned);
    and at least one transmission was made. -/
theorem set_returns (s : Srv) (env : Env) (henv : ∀ j, Bytes (env.rx j).2) (lg : Log) (req : Req) :
    let r := s.set env lg req
    ∀ f, r.1 = some f →
      ((f.cid = ackCid ∧ ackNames f = some ((req.cid.cls : Int), (req.cid.id : Int))) ∨ f.cid = nakCid) ∧
      s.reg.build f.cid f.payload = some f ∧
      (∃ j0 m pre post, j0 + m = r.2.2.nRx ∧
        rxBytes env j0 m = pre ++ wire f.cid.cls f.cid.id f.payload ++ post ∧ f.payload.length ≤ 1000) ∧
      lg.sent.length < r.2.2.sent.length := by
  intro r f hf
  have h := setLoop_result env s.reg s.delay req [ackCid, nakCid] (s.retries + 1)
    (s.parser.setFilters [ackCid, nakCid]) lg rfl
  simp only [r, Srv.set] at hf ⊢
  generalize setLoop env s.reg s.delay req (s.retries + 1) (s.parser.setFilters [ackCid, nakCid]) lg = res at h hf ⊢
  obtain ⟨fo, p', lg'⟩ := res
  simp only at hf h ⊢
  obtain ⟨c1, ⟨j0, m, hjm, hmem⟩, c3, c4⟩ := h f hf
  have hbytes : Bytes (rxBytes env j0 m) := by
    clear hmem hjm
    induction m generalizing j0 with
    | zero => intro b hb; simp [rxBytes] at hb
    | succ k ih =>
      intro b hb
      simp only [rxBytes, List.mem_append] at hb
      rcases hb with hb | hb
      · exact henv j0 b hb
      · exact ih (j0 + 1) b hb
  obtain ⟨pre, post, e1, e2, -⟩ := mem_queue_is_wire [ackCid, nakCid] _ hbytes f.cid f.payload hmem
  exact ⟨check_accepts req.cid f c1, c3, ⟨j0, m, pre, post, hjm, e1, e2⟩, c4⟩

theorem rxBytes_bytes (env : Env) (henv : ∀ j, Bytes (env.rx j).2) (j0 m : Nat) : Bytes (rxBytes env j0 m) := by
  induction m generalizing j0 with
  | zero => intro b hb; simp [rxBytes] at hb
  | succ k ih =>
    intro b hb
    simp only [rxBytes, List.mem_append] at hb
    rcases hb with hb | hb
    · exact henv j0 b hb
    · exact ih (j0 + 1) b hb

/-- **C04 for `set_mga()`.** Nothing, or an MGA-ACK whose decoded `type` is 1 (accepted), built by the
    registered class, carrying a frame of the specification that occurs in bytes received after a
    transmission of this request. -/
theorem setMga_returns (s : Srv) (env : Env) (henv : ∀ j, Bytes (env.rx j).2) (lg : Log) (req : Req) :
    let r := s.setMga env lg req
    ∀ f, r.1 = some f →
      checkMga f = true ∧ s.reg.build f.cid f.payload = some f ∧
      (∃ j0 m pre post, j0 + m = r.2.2.nRx ∧
        rxBytes env j0 m = pre ++ wire f.cid.cls f.cid.id f.payload ++ post ∧ f.payload.length ≤ 1000) ∧
      lg.sent.length < r.2.2.sent.length := by
  intro r f hf
  have h := mgaLoop_result env s.reg s.delay req [mgaAckCid] (s.retries + 1) (s.parser.setFilter mgaAckCid) lg rfl
  simp only [r, Srv.setMga] at hf ⊢
  generalize mgaLoop env s.reg s.delay req (s.retries + 1) (s.parser.setFilter mgaAckCid) lg = res at h hf ⊢
  obtain ⟨fo, p', lg'⟩ := res
  simp only at hf h ⊢
  obtain ⟨c1, ⟨j0, m, hjm, hmem⟩, c3, c4⟩ := h f hf
  obtain ⟨pre, post, e1, e2, -⟩ := mem_queue_is_wire [mgaAckCid] _ (rxBytes_bytes env henv j0 m) f.cid f.payload hmem
  exact ⟨c1, c3, ⟨j0, m, pre, post, hjm, e1, e2⟩, c4⟩

/-- **C04 for `poll()`.** Nothing, or a frame that
    * has the request's own class/id and was built — hence decoded — by the response class the request
      declares (the class registered for that class/id by this very call);
    * carries a frame of the specification occurring in bytes received after a transmission of this
      request, parsed as by a new parser (nothing stale, nothing with a failed checksum);
    * and, for configuration-class requests, is returned only if an ACK-ACK whose decoded
      `clsId`/`msgId` name the request occurs — as a frame of the specification — in those same bytes
      (it is looked for only after the response has been returned by `_wait()`). -/
theorem poll_returns (s : Srv) (env : Env) (henv : ∀ j, Bytes (env.rx j).2) (lg : Log) (req : Req) :
    let r := s.poll env lg req
    ∀ f, r.1 = some f →
      f.cid = req.cid ∧ (s.reg.register req.cid req.response).build f.cid f.payload = some f ∧
      (∃ j0 m pre post, j0 + m = r.2.2.nRx ∧
        rxBytes env j0 m = pre ++ wire f.cid.cls f.cid.id f.payload ++ post ∧ f.payload.length ≤ 1000 ∧
        (req.cid.cls = CLASS_CFG → ∃ a pre' post', checkAckNak req.cid a = .ack ∧
          rxBytes env j0 m = pre' ++ wire a.cid.cls a.cid.id a.payload ++ post')) ∧
      lg.sent.length < r.2.2.sent.length := by
  intro r f hf
  let F := if req.cid.cls = CLASS_CFG then [req.cid, ackCid, nakCid] else [req.cid]
  have h := pollLoop_result env (s.reg.register req.cid req.response) s.delay req F (s.retries + 1)
    (s.parser.setFilters F) lg rfl
  simp only [r, Srv.poll] at hf ⊢
  generalize pollLoop env (s.reg.register req.cid req.response) s.delay req (s.retries + 1)
    (s.parser.setFilters F) lg = res at h hf ⊢
  obtain ⟨fo, p', lg'⟩ := res
  simp only at hf h ⊢
  obtain ⟨c1, c2, ⟨j0, m, hjm, hmem, hack⟩, c4⟩ := h f hf
  have hb := rxBytes_bytes env henv j0 m
  obtain ⟨pre, post, e1, e2, -⟩ := mem_queue_is_wire F _ hb f.cid f.payload hmem
  refine ⟨c1, c2, ⟨j0, m, pre, post, hjm, e1, e2, fun hc => ?_⟩, c4⟩
  obtain ⟨a, ha1, ha2⟩ := hack hc
  obtain ⟨pre', post', e1', -, -⟩ := mem_queue_is_wire F _ hb a.cid a.payload ha2
  exact ⟨a, pre', post', ha1, e1'⟩

/-- the class a poll's answer is decoded with is the response class the request declares -/
theorem registered_response (r : Registry) (cid : Cid) (ci : ClassInfo) (pl : List Nat) (f : RFrame)
    (h : (r.register cid ci).build cid pl = some f) : f.tag = ci.tag ∧ ci.decodable pl = true := by
  simp only [Registry.register, Registry.build, List.find?_cons_of_pos, decide_true] at h
  split at h
  · simp only [Option.some.injEq] at h; subst h; exact ⟨rfl, by assumption⟩
  · cases h

end C04

/-! ### the ACK-ACK comes after the response -/
namespace C04
open Ubx Spec

theorem seg_packets_le_one (f : Option (List Cid)) (g : Seg) : (g.packets f).length ≤ 1 := by
  cases g <;> simp only [Seg.packets] <;> (repeat' split) <;> simp

/-- a packet of a concatenation of at-most-singleton lists comes from one of them; what precedes and
    follows it comes from the lists before and after -/
theorem flatMap_split {α β : Type} (g : α → List β) (hg : ∀ s, (g s).length ≤ 1) (l : List α) (A : List β) (x : β)
    (R : List β) (h : l.flatMap g = A ++ x :: R) :
    ∃ l1 s l2, l = l1 ++ s :: l2 ∧ g s = [x] ∧ l1.flatMap g = A ∧ l2.flatMap g = R := by
  induction l generalizing A with
  | nil => simp at h
  | cons s0 l' ih =>
    rw [List.flatMap_cons] at h
    have h1 := hg s0
    cases hs : g s0 with
    | nil =>
      rw [hs, List.nil_append] at h
      obtain ⟨l1, s, l2, e1, e2, e3, e4⟩ := ih A h
      exact ⟨s0 :: l1, s, l2, by rw [e1]; rfl, e2, by rw [List.flatMap_cons, hs, e3]; rfl, e4⟩
    | cons z zs =>
      have hz : zs = [] := by
        rw [hs] at h1; simp only [List.length_cons] at h1
        exact List.length_eq_zero_iff.mp (by omega)
      subst hz
      rw [hs] at h
      cases A with
      | nil =>
        simp only [List.nil_append, List.cons_append, List.cons.injEq] at h
        obtain ⟨rfl, h2⟩ := h
        exact ⟨[], s0, l', rfl, hs, rfl, h2⟩
      | cons a A' =>
        simp only [List.cons_append, List.nil_append, List.cons.injEq] at h
        obtain ⟨rfl, h2⟩ := h
        obtain ⟨l1, s, l2, e1, e2, e3, e4⟩ := ih A' h2
        exact ⟨s0 :: l1, s, l2, by rw [e1]; rfl, e2, by rw [List.flatMap_cons, hs, e3]; rfl, e4⟩

/-- the queue of a new parser is in stream order: a data packet queued before another comes from a
    frame that occurs — whole, checksum-valid — before the other's frame in the bytes -/
theorem queue_order_is_stream_order (F : List Cid) (bs : List Nat) (hb : Bytes bs) (c1 c2 : Cid) (pl1 pl2 : List Nat)
    (A B C : List Packet)
    (h : ((Parser.fresh (some F)).process bs).queue = A ++ Packet.data c1 pl1 :: (B ++ Packet.data c2 pl2 :: C)) :
    ∃ pre mid post, bs = pre ++ wire c1.cls c1.id pl1 ++ mid ++ wire c2.cls c2.id pl2 ++ post := by
  obtain ⟨segs, hwf, hcons, hq, -⟩ := Ubx.sound (some F) bs hb
  rw [hq, segPackets] at h
  obtain ⟨l1, s, l2, e1, e2, -, e4⟩ := flatMap_split _ (seg_packets_le_one (some F)) segs A _ _ h
  obtain ⟨m1, t, m2, k1, k2, -, -⟩ := flatMap_split _ (seg_packets_le_one (some F)) l2 B _ _ e4
  have hs : s ∈ segs := by rw [e1]; simp
  have ht : t ∈ segs := by rw [e1, k1]; simp
  obtain ⟨w1, -, -⟩ := C03.data_packet_is_wire (some F) s c1 pl1 (hwf s hs) (by rw [e2]; simp)
  obtain ⟨w2, -, -⟩ := C03.data_packet_is_wire (some F) t c2 pl2 (hwf t ht) (by rw [k2]; simp)
  generalize ((Parser.fresh (some F)).process bs).pending = pend at hcons
  refine ⟨segBytes l1, segBytes m1, segBytes m2 ++ pend, ?_⟩
  rw [hcons, e1, k1]
  simp [segBytes, w1, w2, List.append_assoc]

/-- **C04, configuration-class polls: the ACK-ACK is read after the response.** Whenever `poll()`
    returns a frame for a configuration-class request, the bytes received after a transmission of this
    request contain the returned response as a checksum-valid frame and, *later in the stream*, an
    ACK-ACK frame whose decoded `clsId`/`msgId` name the request. -/
theorem poll_ack_after_response (s : Srv) (env : Env) (henv : ∀ j, Bytes (env.rx j).2) (lg : Log) (req : Req)
    (hcfg : req.cid.cls = CLASS_CFG) :
    let r := s.poll env lg req
    ∀ f, r.1 = some f →
      ∃ j0 m a pre mid post, j0 + m = r.2.2.nRx ∧ lg.nRx ≤ j0 ∧ checkAckNak req.cid a = .ack ∧
        rxBytes env j0 m = pre ++ wire f.cid.cls f.cid.id f.payload ++ mid ++ wire a.cid.cls a.cid.id a.payload ++ post := by
  intro r f hf
  let F := if req.cid.cls = CLASS_CFG then [req.cid, ackCid, nakCid] else [req.cid]
  have h := pollLoop_order env (s.reg.register req.cid req.response) s.delay req hcfg F (s.retries + 1)
    (s.parser.setFilters F) lg rfl
  simp only [r, Srv.poll] at hf ⊢
  generalize pollLoop env (s.reg.register req.cid req.response) s.delay req (s.retries + 1)
    (s.parser.setFilters F) lg = res at h hf ⊢
  obtain ⟨fo, p', lg'⟩ := res
  simp only at hf h ⊢
  obtain ⟨j0, m, a, A, B, C, c1, c2, c3, c4⟩ := h f hf
  obtain ⟨pre, mid, post, e⟩ := queue_order_is_stream_order F _ (rxBytes_bytes env henv j0 m) _ _ _ _ A B C c4
  exact ⟨j0, m, a, pre, mid, post, c1, c2, c3, e⟩

end C04


import UbxModel.Proofs.CfgKeysRoundtrip
import UbxModel.Spec.Keys
/-!
# C13 — Configuration key/value items round-trip and keep their 32-bit key id
-/
namespace C13
open Ubx Spec
variable [KeyTable]

/-- the library's size tables are those of the protocol -/
theorem size_tables :
    Gen.bitsFromSize = [0, 1, 8, 16, 32, 64, 0, 0] ∧
    Gen.sizeFromBits = [(1, 1), (8, 2), (16, 3), (32, 4), (64, 5)] ∧
    Gen.bytesFromBits = [(1, 1), (8, 1), (16, 2), (32, 4), (64, 8)] := ⟨rfl, rfl, rfl⟩

/-- key id bit fields: for every group 0..255, item 0..4095 and size, the header the code builds is the
    protocol's key id and its three fields read back exactly -/
theorem key_id_fields (g i bits : Nat) (hg : g < 256) (hi : i < 4096) (hb : validBits bits) :
    ∃ k, buildHeader g i bits = .ok k ∧ k = keyId (sizeCode bits) g i ∧
      groupFromKey k = g ∧ itemFromKey k = i ∧ bitsFromKey k = .ok bits := by
  have hsc := sizeCode_lt bits
  obtain ⟨f1, f2, f3, -⟩ := key_fields g i (sizeCode bits) hg hi hsc
  refine ⟨_, ?_, rfl, f1, f2, bitsFromKey_of _ bits hb f3⟩
  rw [buildHeader_valid _ _ _ hb, header_eq _ _ _ hg hi hsc]
  rfl

/-- **C13 (round trip).** For every group, item, size and value that `pack` accepts — with the
    signedness the key table assigns to the key id, and 0/1 for one-bit items — decoding the encoded
    bytes gives back the same group, item, size, signedness and value and consumes exactly four bytes
    plus the value width (one byte for one-bit items), whatever bytes follow. -/
theorem roundtrip (c : CfgItem) (bs : List Nat) (h : c.pack = .ok bs) (hb : validBits c.bits)
    (h1 : c.bits = 1 → c.value = 0 ∨ c.value = 1)
    (hs : c.signed = keySigned (keyId (sizeCode c.bits) c.group.toNat c.item.toNat)) (rest : List Nat) :
    CfgItem.unpack (bs ++ rest) = .ok (c, 4 + valueBytes c.bits) ∧ bs.length = 4 + valueBytes c.bits :=
  Ubx.roundtrip c bs h hb h1 _ rfl hs rest

/-- value widths -/
theorem value_widths : valueBytes 1 = 1 ∧ valueBytes 8 = 1 ∧ valueBytes 16 = 2 ∧ valueBytes 32 = 4 ∧ valueBytes 64 = 8 := by
  decide

/-- every published key: reserved bits zero, a valid size code, and signed exactly where the
    interface description documents a signed type -/
theorem published_keys :
    ∀ e ∈ Gen.publishedKeys,
      (e.1 < 2 ^ 31 ∧ (e.1 / 2 ^ 24) % 16 = 0 ∧ (e.1 / 2 ^ 12) % 16 = 0) ∧
      (1 ≤ (e.1 / 2 ^ 28) % 8 ∧ (e.1 / 2 ^ 28) % 8 ≤ 5) ∧
      e.2.2 = documentedSigned e.1 ∧ @keySigned publishedTable e.1 = documentedSigned e.1 := by
  decide +kernel

/-- the published key ids are pairwise distinct -/
theorem published_distinct : (Gen.publishedKeys.map (·.1)).Nodup := by decide +kernel

end C13

namespace C13
open Ubx Spec
variable [KeyTable]

/-- **C13 (key id kept).** For *every* key id whose reserved bits are zero and whose size code is
    valid (1..5): the item built from the key has the group, item and width the key id encodes, and
    whatever `pack` produces for it starts with exactly that key id in little-endian order and is
    4 bytes plus the value width long. -/
theorem key_exact (k : Nat) (v : Int) (hrz : reservedZero k)
    (hsz : 1 ≤ (k >>> 28) &&& 0x7 ∧ (k >>> 28) &&& 0x7 ≤ 5) :
    ∃ c, CfgItem.fromKey k v = .ok c ∧ validBits c.bits ∧ sizeCode c.bits = (k >>> 28) &&& 0x7 ∧
      c.group = groupFromKey k ∧ c.item = itemFromKey k ∧ c.signed = keySigned k ∧ c.value = v ∧
      ∀ bs, c.pack = .ok bs → bs.take 4 = leBytes 4 k ∧ bs.length = 4 + valueBytes c.bits := by
  have hdec := key_decompose k hrz
  generalize hs : (k >>> 28) &&& 0x7 = s at *
  obtain ⟨bits, hbits, hvb, hsc⟩ : ∃ bits, bitsFromKey k = .ok bits ∧ validBits bits ∧ sizeCode bits = s := by
    have : s = 1 ∨ s = 2 ∨ s = 3 ∨ s = 4 ∨ s = 5 := by omega
    rcases this with rfl | rfl | rfl | rfl | rfl
    · exact ⟨1, by simp [bitsFromKey, hs, bitsFromSize_eq], by simp [validBits], rfl⟩
    · exact ⟨8, by simp [bitsFromKey, hs, bitsFromSize_eq], by simp [validBits], rfl⟩
    · exact ⟨16, by simp [bitsFromKey, hs, bitsFromSize_eq], by simp [validBits], rfl⟩
    · exact ⟨32, by simp [bitsFromKey, hs, bitsFromSize_eq], by simp [validBits], rfl⟩
    · exact ⟨64, by simp [bitsFromKey, hs, bitsFromSize_eq], by simp [validBits], rfl⟩
  refine ⟨{ group := groupFromKey k, item := itemFromKey k, bits := bits, signed := keySigned k, value := v },
    by simp [CfgItem.fromKey, hbits, Except.map], hvb, hsc, rfl, rfl, rfl, rfl, ?_⟩
  intro bs hp
  have hgl : groupFromKey k < 256 := by simp only [groupFromKey]; rw [and_ff]; omega
  have hil : itemFromKey k < 4096 := by simp only [itemFromKey]; rw [and_fff]; omega
  have hg : ¬ (((groupFromKey k : Nat) : Int) < 0 ∨ ((groupFromKey k : Nat) : Int) > 0xFF) := by omega
  have hi : ¬ (((itemFromKey k : Nat) : Int) < 0 ∨ ((itemFromKey k : Nat) : Int) > 0xFFF) := by omega
  obtain ⟨hpe, -⟩ := pack_eq { group := groupFromKey k, item := itemFromKey k, bits := bits, signed := keySigned k, value := v }
    hg hi hvb k (by simp only [Int.toNat_natCast, hsc]; exact hdec)
  rw [hpe] at hp
  generalize hpv : CfgItem.packValue _ = pv at hp
  cases pv with
  | error e => rw [bind_error] at hp; simp [structToValue] at hp
  | ok val =>
    rw [bind_ok] at hp
    simp only [structToValue, pure, Except.pure, Except.ok.injEq] at hp
    subst hp
    have hl4 : (leBytes 4 k).length = 4 := leBytes_length 4 k
    obtain ⟨-, hvl⟩ := value_roundtrip_len _ hvb val hpv
    exact ⟨take_append_len _ _ 4 hl4, by simp [hl4, hvl]⟩

end C13

import UbxModel.Proofs.Server
/-!
# C05 — Every request terminates: bounded retransmissions and bounded time

Termination is by construction: `wait`, `pollWaitAck`, `pollAttempt` are accepted by Lean as total
functions (well-founded recursion on `deadline - now`), the retry loops are structural — no fuel,
no `partial`.  The only environment assumption is built into `tick`: a receive takes ≥ 1 tick.
Below: `T` bounds the duration of a single receive, `D = s.delay` is the retry delay in ticks;
transmit, flush and recover are instantaneous in the model.
-/
namespace C05
open Ubx

/-- **set():** returns after at most `retries + 1` transmissions — all of the same bytes — and at most
    `retries + 1` waiting periods of `D + T`; the number of receive calls is bounded by the time spent. -/
theorem set_bounded (s : Srv) (env : Env) (T : Nat) (hT : env.rxBound T) (lg : Log) (req : Req) :
    let r := s.set env lg req
    r.2.2.now - lg.now ≤ (s.retries + 1) * (s.delay + T) ∧
    (∃ k, k ≤ s.retries + 1 ∧ r.2.2.sent = lg.sent ++ List.replicate k req.wire) ∧
    r.2.2.nRx - lg.nRx ≤ r.2.2.now - lg.now := by
  have h := setLoop_bounds env s.reg T hT s.delay req (s.retries + 1) (s.parser.setFilters [ackCid, nakCid]) lg
  simp only [Srv.set]
  generalize setLoop env s.reg s.delay req (s.retries + 1) (s.parser.setFilters [ackCid, nakCid]) lg = res at h ⊢
  obtain ⟨r, p, lg'⟩ := res
  obtain ⟨a1, a2, a3, a4, a5⟩ := h
  simp only at a1 a2 a3 a4 a5 ⊢
  exact ⟨by omega, a3, a4⟩

/-- **set_mga():** the same bounds -/
theorem setMga_bounded (s : Srv) (env : Env) (T : Nat) (hT : env.rxBound T) (lg : Log) (req : Req) :
    let r := s.setMga env lg req
    r.2.2.now - lg.now ≤ (s.retries + 1) * (s.delay + T) ∧
    (∃ k, k ≤ s.retries + 1 ∧ r.2.2.sent = lg.sent ++ List.replicate k req.wire) ∧
    r.2.2.nRx - lg.nRx ≤ r.2.2.now - lg.now := by
  have h := mgaLoop_bounds env s.reg T hT s.delay req (s.retries + 1) (s.parser.setFilter mgaAckCid) lg
  simp only [Srv.setMga]
  generalize mgaLoop env s.reg s.delay req (s.retries + 1) (s.parser.setFilter mgaAckCid) lg = res at h ⊢
  obtain ⟨r, p, lg'⟩ := res
  obtain ⟨a1, a2, a3, a4, a5⟩ := h
  simp only at a1 a2 a3 a4 a5 ⊢
  exact ⟨by omega, a3, a4⟩

/-- **poll():** at most `retries + 1` transmissions; two waiting periods per attempt for
    configuration-class requests (response, then its acknowledgement), one otherwise -/
theorem poll_bounded (s : Srv) (env : Env) (T : Nat) (hT : env.rxBound T) (lg : Log) (req : Req) :
    let r := s.poll env lg req
    r.2.2.now - lg.now ≤ (s.retries + 1) * (2 * (s.delay + T)) ∧
    (req.cid.cls ≠ CLASS_CFG → r.2.2.now - lg.now ≤ (s.retries + 1) * (s.delay + T)) ∧
    (∃ k, k ≤ s.retries + 1 ∧ r.2.2.sent = lg.sent ++ List.replicate k req.wire) ∧
    r.2.2.nRx - lg.nRx ≤ r.2.2.now - lg.now := by
  have h := pollLoop_bounds env (s.reg.register req.cid req.response) T hT s.delay req (s.retries + 1)
    (s.parser.setFilters (if req.cid.cls = CLASS_CFG then [req.cid, ackCid, nakCid] else [req.cid])) lg
  simp only [Srv.poll]
  generalize pollLoop env (s.reg.register req.cid req.response) s.delay req (s.retries + 1)
    (s.parser.setFilters (if req.cid.cls = CLASS_CFG then [req.cid, ackCid, nakCid] else [req.cid])) lg = res at h ⊢
  obtain ⟨r, p, lg'⟩ := res
  obtain ⟨a1, a2, a3, a4, a5, a6⟩ := h
  simp only at a1 a2 a3 a4 a5 a6 ⊢
  exact ⟨by omega, fun hne => by have := a6 hne; omega, a3, a4⟩

/-- **fire_and_forget():** exactly one transmission, no reading, no time -/
theorem fireAndForget_once (s : Srv) (env : Env) (lg : Log) (req : Req) :
    let r := s.fireAndForget env lg req
    r.2.sent = lg.sent ++ [req.wire] ∧ r.2.nRx = lg.nRx ∧ r.2.now = lg.now := ⟨rfl, rfl, rfl⟩

/-- the bounds for the extreme settings the API admits: 10 retries, 5000 ms -/
example (T : Nat) : (10 + 1) * (2 * (5000 + T)) = 110000 + 22 * T := by omega

end C05

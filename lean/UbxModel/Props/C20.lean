import UbxModel.Model.Gpsd
/-!
# C20 — The gpsd handshake picks the right device and tolerates any interleaved data
-/
namespace C20
open Ubx Ubx.Gpsd

/-- a device entry `{"path": <string>, …}` -/
def devPath : Json → Option String
  | .obj d => (Json.get d "path").bind isStr
  | _ => none

/-- the decision table, as a specification: the requested device if listed; the first listed
    device if none was requested; otherwise no change -/
def select (st : State) (paths : List String) : State :=
  match st.requested with
  | some want => if want ∈ paths then { st with selected := some want, enabled := true } else st
  | none =>
      match paths with
      | [] => st
      | p :: _ => { st with selected := some p, enabled := true }

/-- `_parse_devices` on a well-formed device list implements the decision table, for every list -/
theorem devices_go (st : State) (devs : List Json) (paths : List String)
    (h : devs.map devPath = paths.map some) :
    parseDevices.go st devs = .ok (select st paths) := by
  induction devs generalizing paths with
  | nil =>
    cases paths with
    | nil => simp [parseDevices.go, select]; cases st.requested <;> simp
    | cons p ps => simp at h
  | cons d rest ih =>
    cases paths with
    | nil => simp at h
    | cons p ps =>
      simp only [List.map_cons, List.cons.injEq] at h
      obtain ⟨hd, hr⟩ := h
      cases d with
      | obj kv =>
        simp only [devPath] at hd
        cases hg : Json.get kv "path" with
        | none => simp [hg] at hd
        | some pj =>
          simp only [hg, Option.bind] at hd
          simp only [parseDevices.go, hg, hd]
          cases hreq : st.requested with
          | none => simp [select, hreq]
          | some want =>
            by_cases hw : want = p
            · simp [select, hreq, hw]
            · have := ih ps hr
              simp only [hw, if_false, this, select, hreq]
              simp [hw]
      | null => simp [devPath] at hd
      | bool b => simp [devPath] at hd
      | num => simp [devPath] at hd
      | str s => simp [devPath] at hd
      | arr xs => simp [devPath] at hd

/-- well-formedness the property assumes: VERSION objects carry a `release`, DEVICES objects carry a
    `devices` array of objects with a string `path` — every other JSON value is unconstrained -/
def LineOk : Line → Prop
  | .value (.obj kvs) =>
      (Json.get kvs "class" = some (.str "VERSION") → (Json.get kvs "release").isSome) ∧
      (Json.get kvs "class" = some (.str "DEVICES") →
        ∃ (devs : List Json) (paths : List String), Json.get kvs "devices" = some (.arr devs) ∧ devs.map devPath = paths.map some)
  | _ => True

/-- **never raises**: one line -/
theorem line_never_raises (st : State) (l : Line) (h : LineOk l) : ∃ st', parseLine st l = .ok st' := by
  cases l with
  | notJson => exact ⟨st, rfl⟩
  | tooDeep => exact ⟨st, rfl⟩
  | value j =>
    cases j with
    | obj kvs =>
      obtain ⟨hv, hd⟩ := h
      simp only [parseLine]
      split
      · rename_i hc
        have := hv hc
        cases hr : Json.get kvs "release" with
        | none => simp [hr] at this
        | some r => exact ⟨_, rfl⟩
      · rename_i hc
        obtain ⟨devs, paths, h1, h2⟩ := hd hc
        exact ⟨select st paths, by simp [parseDevices, h1, devices_go st devs paths h2]⟩
      · exact ⟨st, rfl⟩
    | null => exact ⟨st, rfl⟩
    | bool b => exact ⟨st, rfl⟩
    | num => exact ⟨st, rfl⟩
    | str s => exact ⟨st, rfl⟩
    | arr xs => exact ⟨st, rfl⟩

/-- **never raises**: whatever arrives — binary, NMEA, JSON of any shape — as long as VERSION and
    DEVICES objects are well-formed -/
theorem chunk_never_raises (st : State) (c : Chunk)
    (h : ∀ ls, c = .lines ls → ∀ l ∈ ls, LineOk l) : ∃ st', parseChunk st c = .ok st' := by
  cases c with
  | undecodable => exact ⟨st, rfl⟩
  | lines ls =>
    have hl := h ls rfl
    simp only [parseChunk]
    induction ls generalizing st with
    | nil => exact ⟨st, rfl⟩
    | cons l rest ih =>
      obtain ⟨st1, h1⟩ := line_never_raises st l (hl l (by simp))
      obtain ⟨st2, h2⟩ := ih st1 (fun ls' hls => by cases hls; exact fun x hx => hl x (by simp [hx]))
        (fun x hx => hl x (by simp [hx]))
      exact ⟨st2, by simp only [List.foldlM, h1]; exact h2⟩

/-- **decision table** for one DEVICES list seen from the initial state -/
theorem decision_table (name : Option String) (paths : List String) :
    let st := select (State.init name) paths
    (∀ d, (State.init name).requested = some d → d ∈ paths → st.selected = some d ∧ st.enabled = true) ∧
    (∀ d, (State.init name).requested = some d → d ∉ paths → st.selected = none ∧ st.enabled = false) ∧
    ((State.init name).requested = none → ∀ p ps, paths = p :: ps → st.selected = some p ∧ st.enabled = true) ∧
    (paths = [] → st.selected = none ∧ st.enabled = false) := by
  refine ⟨?_, ?_, ?_, ?_⟩
  · intro d hr hm; simp [select, hr, hm]
  · intro d hr hm
    have h0 : (State.init name).selected = none ∧ (State.init name).enabled = false := ⟨rfl, rfl⟩
    simp only [select, hr, hm, if_false]; exact h0
  · intro hr p ps hp; simp [select, hr, hp]
  · intro hp; subst hp
    have h0 : (State.init name).selected = none ∧ (State.init name).enabled = false := ⟨rfl, rfl⟩
    simp only [select]; cases (State.init name).requested <;> simpa using h0

/-- the connection is marked ready exactly when a device is selected — an invariant of `select` -/
theorem enabled_iff_selected (st : State) (paths : List String) (h : st.enabled = true ↔ st.selected.isSome) :
    (select st paths).enabled = true ↔ (select st paths).selected.isSome := by
  unfold select
  cases st.requested with
  | none => cases paths <;> simp [h]
  | some want => by_cases hw : want ∈ paths <;> simp [hw, h]

/-- with a requested device, only that device is ever selected -/
theorem only_requested (st : State) (paths : List String) (d : String) (hr : st.requested = some d)
    (h : st.selected = none ∨ st.selected = some d) :
    (select st paths).selected = none ∨ (select st paths).selected = some d := by
  unfold select
  rw [hr]
  by_cases hw : d ∈ paths <;> simp [hw, h]

/-! ### the connection is ready exactly when a device is selected — for every input, well-formed or not -/

/-- the invariant -/
def Ready (st : State) : Prop := st.enabled = true ↔ st.selected.isSome

theorem ready_init (name : Option String) : Ready (State.init name) := by simp [Ready, State.init]

theorem ready_devices_go (st st' : State) (devs : List Json) (h : Ready st)
    (hgo : parseDevices.go st devs = .ok st') : Ready st' := by
  induction devs generalizing st with
  | nil => simp [parseDevices.go] at hgo; subst hgo; exact h
  | cons d rest ih =>
    cases d with
    | obj kv =>
      simp only [parseDevices.go] at hgo
      cases hg : Json.get kv "path" with
      | none => simp [hg] at hgo
      | some pj =>
        simp only [hg] at hgo
        cases hs : isStr pj with
        | none => simp [hs] at hgo
        | some name =>
          simp only [hs] at hgo
          cases hr : st.requested with
          | none => simp [hr] at hgo; subst hgo; simp [Ready]
          | some want =>
            simp only [hr] at hgo
            by_cases hw : want = name
            · simp [hw] at hgo; subst hgo; simp [Ready]
            · simp [hw] at hgo; exact ih st h hgo
    | null => simp [parseDevices.go] at hgo
    | bool b => simp [parseDevices.go] at hgo
    | num => simp [parseDevices.go] at hgo
    | str s => simp [parseDevices.go] at hgo
    | arr xs => simp [parseDevices.go] at hgo

theorem ready_line (st st' : State) (l : Line) (h : Ready st) (hl : parseLine st l = .ok st') : Ready st' := by
  cases l with
  | notJson => simp [parseLine] at hl; subst hl; exact h
  | tooDeep => simp [parseLine] at hl; subst hl; exact h
  | value j =>
    cases j with
    | obj kvs =>
      simp only [parseLine] at hl
      split at hl
      · split at hl
        · simp at hl
        · simp at hl; subst hl; exact h
      · unfold parseDevices at hl
        split at hl
        · simp at hl
        · exact ready_devices_go st st' _ h hl
        · simp at hl
      · simp at hl; subst hl; exact h
    | null => simp [parseLine] at hl; subst hl; exact h
    | bool b => simp [parseLine] at hl; subst hl; exact h
    | num => simp [parseLine] at hl; subst hl; exact h
    | str s => simp [parseLine] at hl; subst hl; exact h
    | arr xs => simp [parseLine] at hl; subst hl; exact h

theorem ready_chunk (st st' : State) (c : Chunk) (h : Ready st) (hc : parseChunk st c = .ok st') : Ready st' := by
  cases c with
  | undecodable => simp [parseChunk] at hc; subst hc; exact h
  | lines ls =>
    simp only [parseChunk] at hc
    induction ls generalizing st with
    | nil => simp [List.foldlM] at hc; cases hc; exact h
    | cons l rest ih =>
      simp only [List.foldlM] at hc
      cases h1 : parseLine st l with
      | error e => simp [h1, bind, Except.bind] at hc
      | ok st1 => simp [h1, bind, Except.bind] at hc; exact ih st1 (ready_line st st1 l h h1) hc

/-- **`setup()` does not return before the connection is ready, and then a device is selected** -/
theorem enable_ready (st st' : State) (cs : List Chunk) (h : Ready st) (he : enable st cs = .ok (some st')) :
    st'.enabled = true ∧ ∃ d, st'.selected = some d := by
  induction cs generalizing st with
  | nil => simp [enable] at he
  | cons c rest ih =>
    simp only [enable] at he
    cases hc : parseChunk st c with
    | error e => simp [hc] at he
    | ok st1 =>
      simp only [hc] at he
      have hr := ready_chunk st st1 c h hc
      by_cases hen : st1.enabled = true
      · simp [hen] at he; subst he
        exact ⟨hen, Option.isSome_iff_exists.mp (hr.mp hen)⟩
      · simp [hen] at he; exact ih st1 hr he

/-- **commands are only ever addressed to the selected device**: whatever the handshake delivered, a command sent
    after `setup()` is `&`, the selected device, `=`, and the hexadecimal form of the bytes -/
theorem addressed_to_selected (name : Option String) (cs : List Chunk) (st : State) (hdr data : List Nat)
    (hs : setup name cs = .ok (some (st, hdr))) :
    st.enabled = true ∧ ∃ d, st.selected = some d ∧
      commandAfterSetup hdr data = command (d.toList.map Char.toNat) data := by
  unfold setup at hs
  cases he : enable (State.init name) cs with
  | error e => simp [he, Except.map] at hs
  | ok r =>
    cases r with
    | none => simp [he, Except.map] at hs
    | some st0 =>
      simp [he, Except.map] at hs
      obtain ⟨h1, h2⟩ := hs
      subst h1
      obtain ⟨hen, d, hd⟩ := enable_ready _ _ cs (ready_init name) he
      refine ⟨hen, d, hd, ?_⟩
      simp [commandAfterSetup, command, ← h2, cmdHeader, hd]

/-- non-vacuity: two chunks, the second lists the requested device -/
example : (match setup (some "/dev/b") [.lines [.notJson], .lines [.value (.obj [("class", .str "DEVICES"),
      ("devices", .arr [.obj [("path", .str "/dev/a")], .obj [("path", .str "/dev/b")]])])]] with
    | .ok (some (st, _)) => st.selected | _ => none) = some "/dev/b" := by decide

end C20

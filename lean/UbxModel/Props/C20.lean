import UbxModel.Model.Gpsd
/-!
# C20 — The gpsd handshake picks the right device and tolerates any interleaved data
-/
namespace C20
open Ubx Ubx.Gpsd

/-- a device entry `{"path": <string>, …}` -/
def devPath : Json → Option String
  | .obj d => (Json.get d "path").bind isStr
  | _ => none

/-- the decision table, as a specification: the requested device if listed; the first listed
    device if none was requested; otherwise no change -/
def select (st : State) (paths : List String) : State :=
  match st.requested with
  | some want => if want ∈ paths then { st with selected := some want, enabled := true } else st
  | none =>
      match paths with
      | [] => st
      | p :: _ => { st with selected := some p, enabled := true }

/-- `_parse_devices` on a well-formed device list implements the decision table, for every list -/
theorem devices_go (st : State) (devs : List Json) (paths : List String)
    (h : devs.map devPath = paths.map some) :
    parseDevices.go st devs = .ok (select st paths) := by
  induction devs generalizing paths with
  | nil =>
    cases paths with
    | nil => simp [parseDevices.go, select]; cases st.requested <;> simp
    | cons p ps => simp at h
  | cons d rest ih =>
    cases paths with
    | nil => simp at h
    | cons p ps =>
      simp only [List.map_cons, List.cons.injEq] at h
      obtain ⟨hd, hr⟩ := h
      cases d with
      | obj kv =>
        simp only [devPath] at hd
        cases hg : Json.get kv "path" with
        | none => simp [hg] at hd
        | some pj =>
          simp only [hg, Option.bind] at hd
          simp only [parseDevices.go, hg, hd]
          cases hreq : st.requested with
          | none => simp [select, hreq]
          | some want =>
            by_cases hw : want = p
            · simp [select, hreq, hw]
            · have := ih ps hr
              simp only [hw, if_false, this, select, hreq]
              simp [hw]
      | null => simp [devPath] at hd
      | bool b => simp [devPath] at hd
      | num => simp [devPath] at hd
      | str s => simp [devPath] at hd
      | arr xs => simp [devPath] at hd

/-- well-formedness the property assumes: VERSION objects carry a `release`, DEVICES objects carry a
    `devices` array of objects with a string `path` — every other JSON value is unconstrained -/
def LineOk : Line → Prop
  | .value (.obj kvs) =>
      (Json.get kvs "class" = some (.str "VERSION") → (Json.get kvs "release").isSome) ∧
      (Json.get kvs "class" = some (.str "DEVICES") →
        ∃ (devs : List Json) (paths : List String), Json.get kvs "devices" = some (.arr devs) ∧ devs.map devPath = paths.map some)
  | _ => True

/-- **never raises**: one line -/
theorem line_never_raises (st : State) (l : Line) (h : LineOk l) : ∃ st', parseLine st l = .ok st' := by
  cases l with
  | notJson => exact ⟨st, rfl⟩
  | tooDeep => exact ⟨st, rfl⟩
  | value j =>
    cases j with
    | obj kvs =>
      obtain ⟨hv, hd⟩ := h
      simp only [parseLine]
      split
      · rename_i hc
        have := hv hc
        cases hr : Json.get kvs "release" with
        | none => simp [hr] at this
        | some r => exact ⟨_, rfl⟩
      · rename_i hc
        obtain ⟨devs, paths, h1, h2⟩ := hd hc
        exact ⟨select st paths, by simp [parseDevices, h1, devices_go st devs paths h2]⟩
      · exact ⟨st, rfl⟩
    | null => exact ⟨st, rfl⟩
    | bool b => exact ⟨st, rfl⟩
    | num => exact ⟨st, rfl⟩
    | str s => exact ⟨st, rfl⟩
    | arr xs => exact ⟨st, rfl⟩

/-- **never raises**: whatever arrives — binary, NMEA, JSON of any shape — as long as VERSION and
    DEVICES objects are well-formed -/
theorem chunk_never_raises (st : State) (c : Chunk)
    (h : ∀ ls, c = .lines ls → ∀ l ∈ ls, LineOk l) : ∃ st', parseChunk st c = .ok st' := by
  cases c with
  | undecodable => exact ⟨st, rfl⟩
  | lines ls =>
    have hl := h ls rfl
    simp only [parseChunk]
    induction ls generalizing st with
    | nil => exact ⟨st, rfl⟩
    | cons l rest ih =>
      obtain ⟨st1, h1⟩ := line_never_raises st l (hl l (by simp))
      obtain ⟨st2, h2⟩ := ih st1 (fun ls' hls => by cases hls; exact fun x hx => hl x (by simp [hx]))
        (fun x hx => hl x (by simp [hx]))
      exact ⟨st2, by simp only [List.foldlM, h1]; exact h2⟩

/-- **decision table** for one DEVICES list seen from the initial state -/
theorem decision_table (name : Option String) (paths : List String) :
    let st := select (State.init name) paths
    (∀ d, (State.init name).requested = some d → d ∈ paths → st.selected = some d ∧ st.enabled = true) ∧
    (∀ d, (State.init name).requested = some d → d ∉ paths → st.selected = none ∧ st.enabled = false) ∧
    ((State.init name).requested = none → ∀ p ps, paths = p :: ps → st.selected = some p ∧ st.enabled = true) ∧
    (paths = [] → st.selected = none ∧ st.enabled = false) := by
  refine ⟨?_, ?_, ?_, ?_⟩
  · intro d hr hm; simp [select, hr, hm]
  · intro d hr hm
    have h0 : (State.init name).selected = none ∧ (State.init name).enabled = false := ⟨rfl, rfl⟩
    simp only [select, hr, hm, if_false]; exact h0
  · intro hr p ps hp; simp [select, hr, hp]
  · intro hp; subst hp
    have h0 : (State.init name).selected = none ∧ (State.init name).enabled = false := ⟨rfl, rfl⟩
    simp only [select]; cases (State.init name).requested <;> simpa using h0

/-- the connection is marked ready exactly when a device is selected — an invariant of `select` -/
theorem enabled_iff_selected (st : State) (paths : List String) (h : st.enabled = true ↔ st.selected.isSome) :
    (select st paths).enabled = true ↔ (select st paths).selected.isSome := by
  unfold select
  cases st.requested with
  | none => cases paths <;> simp [h]
  | some want => by_cases hw : want ∈ paths <;> simp [hw, h]

/-- with a requested device, only that device is ever selected -/
theorem only_requested (st : State) (paths : List String) (d : String) (hr : st.requested = some d)
    (h : st.selected = none ∨ st.selected = some d) :
    (select st paths).selected = none ∨ (select st paths).selected = some d := by
  unfold select
  rw [hr]
  by_cases hw : d ∈ paths <;> simp [hw, h]

end C20

import UbxModel.Proofs.ParserSound
import UbxModel.Props.C02
/-!
# C03 — The parser never delivers anything but checksum-valid frames of the input

The parser's own account of the input: the consumed bytes are a sequence of consecutive,
non-overlapping *segments* — a skipped byte, a frame-shaped sequence of at most 1000 payload
bytes, or a 6-byte header that announces more — followed by the (incomplete) frame in progress.
-/
namespace C03
open Ubx Spec

/-- **C03.** For every byte string, every filter and every chunking: the queue holds exactly what
    the segments yield — a data packet `(class/id, payload)` for each frame segment whose two
    checksum bytes are the Fletcher pair *and* whose class/id is in the filter, exactly one error
    marker for each frame segment whose checksum bytes are not, nothing for skipped bytes and
    over-long headers — in stream order; and `frames_rx` counts the checksum-valid segments. -/
theorem sound (f : Option (List Cid)) (s : List Nat) (hs : Bytes s)
    (chunks : List (List Nat)) (hchunks : chunks.flatten = s) :
    let p := chunks.foldl Parser.process (Parser.fresh f)
    ∃ segs : List Seg, (∀ g ∈ segs, g.wf) ∧ s = segBytes segs ++ p.pending ∧
      p.queue = segPackets f segs ∧ p.framesRx = segGood segs := by
  intro p
  have hp : p = (Parser.fresh f).process s := by simp only [p, Parser.process_chunks, hchunks]
  rw [hp]
  exact Ubx.sound f s hs

/-- a data packet comes only from a frame segment that *is* a frame of the specification
    (sync, class, id, little-endian length ≤ 1000, payload, matching Fletcher checksum) and whose
    class/id passes the filter -/
theorem data_packet_is_wire (f : Option (List Cid)) (g : Seg) (cid : Cid) (pl : List Nat)
    (hwf : g.wf) (h : Packet.data cid pl ∈ g.packets f) :
    g.bytes = wire cid.cls cid.id pl ∧ pl.length ≤ 1000 ∧ filterPasses f cid = true := by
  cases g with
  | skip b => simp [Seg.packets] at h
  | long c i l1 l2 => simp [Seg.packets] at h
  | frame c i p a b =>
    simp only [Seg.packets] at h
    split at h
    · rename_i hv
      split at h
      · rename_i hfp
        simp at h
        obtain ⟨hcid, hpl⟩ := h
        subst hcid; subst hpl
        refine ⟨?_, hwf, hfp⟩
        exact C02.valid_frame_is_wire c i pl a b (by simp [Shape.valid, hv.1, hv.2])
      · simp at h
    · simp at h

/-- a frame-shaped segment whose checksum does not match yields exactly one error marker and no data -/
theorem bad_checksum_one_marker (f : Option (List Cid)) (c i : Nat) (p : List Nat) (a b : Nat)
    (hbad : ¬ ((frameCk c i p).a = a ∧ (frameCk c i p).b = b)) :
    (Seg.frame c i p a b).packets f = [Packet.crcError] := by
  simp [Seg.packets, hbad]

/-- a declared length above 1000 yields nothing, is exactly six bytes long … -/
theorem long_header_yields_nothing (f : Option (List Cid)) (c i l1 l2 : Nat) :
    (Seg.long c i l1 l2).packets f = [] ∧ (Seg.long c i l1 l2).bytes.length = 6 := by
  simp [Seg.packets, Seg.bytes]

/-- … and does not hide a frame that starts right after it: the frame is delivered -/
theorem long_does_not_hide (f : Option (List Cid)) (c i l1 l2 : Nat) (hbig : l1 + l2 * 256 > 1000)
    (cls id : Nat) (pl : List Nat) (hpl : pl.length ≤ 1000) :
    let p := (Parser.fresh f).process ([0xB5, 0x62, c, i, l1, l2] ++ wire cls id pl)
    p.queue = (if filterPasses f ⟨cls, id⟩ then [Packet.data ⟨cls, id⟩ pl] else []) ∧ p.framesRx = 1 := by
  obtain ⟨hw, hv⟩ := C02.wire_is_valid_frame cls id pl
  let it1 : Item := ⟨[], .long c i l1 l2⟩
  let it2 : Item := ⟨[], .frame cls id pl (ckA (body cls id pl)) (ckB (body cls id pl))⟩
  have hok : ∀ it ∈ [it1, it2], it.ok := by
    intro it hit
    simp at hit
    rcases hit with rfl | rfl
    · exact ⟨rfl, hbig⟩
    · exact ⟨rfl, hpl⟩
  have h := C02.complete_from (Parser.fresh f) rfl [it1, it2] hok [] rfl
  simp only [List.flatMap_cons, List.flatMap_nil, Item.bytes, it1, it2, Shape.bytes, List.nil_append,
    List.append_nil, ← hw] at h
  obtain ⟨h1, h2⟩ := h
  intro p
  refine ⟨?_, ?_⟩
  · rw [h1]; simp [Parser.fresh, expectedPackets, Item.packets, hv]
  · rw [h2]
    have hl : (Shape.long c i l1 l2).valid = false := rfl
    simp [Parser.fresh, validCount, List.filter_cons, hv, hl]

/-- non-vacuity: a frame nested in the payload of another frame-shaped sequence is *not* delivered,
    a flipped checksum bit gives a marker, garbage gives nothing -/
example :
    let inner := [0xB5, 0x62, 5, 1, 2, 0, 6, 1, 0x0F, 0x38]
    let p := (Parser.fresh (some [⟨5, 1⟩])).process ([0xB5, 0x62, 1, 2, 10, 0] ++ inner ++ [0, 0] ++ [7, 7, 0xB5] ++ inner)
    p.queue = [.crcError, .data ⟨5, 1⟩ [6, 1]] ∧ p.framesRx = 1 := by decide

end C03

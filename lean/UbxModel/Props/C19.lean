import UbxModel.Model.Render
import UbxModel.Model.Level
import UbxModel.Model.Server
import UbxModel.Model.RenderKeys
import UbxModel.Proofs.CfgKeysDichotomy
/-!
# C19 — Frames can always be rendered; the log level never changes behaviour
-/
namespace C19
open Ubx Ubx.Render
variable [KeyTable]

theorem idx_ok (t : List String) (i : Nat) (h : i < t.length) : ∃ s, idx t i = .ok s := by
  simp only [idx, List.getElem?_eq_getElem h]; exact ⟨_, rfl⟩

theorem mask_le (x m : Nat) : x &&& m ≤ m := Nat.and_le_right

/-- the generated tables are as long as the masks that index them require -/
theorem table_lengths :
    Gen.U1_Flags_status_strings.length = 8 ∧ Gen.X1_InitStatus1_wt_init_strings.length = 4 ∧
    Gen.X1_InitStatus1_mnt_alg_strings.length = 8 ∧ Gen.X1_InitStatus1_ins_init_strings.length = 4 ∧
    Gen.X1_InitStatus2_imu_init_strings.length = 4 ∧ Gen.X1_SensStatus2_calib_strings.length = 4 ∧
    Gen.X1_SensStatus2_time_strings.length = 4 ∧ charlenStr.length = 4 ∧ parityStr.length = 8 ∧
    stopbitsStr.length = 4 := by decide

/-- **every renderer is total**: for every current value and every value the derived attributes may
    have been computed from (0 for a fresh item), the `__str__` of the item returns text — no table
    index is ever out of range -/
theorem render_total (k : RKind) (v d : Nat) : ∃ s, render k v d = .ok s := by
  obtain ⟨l1, l2, l3, l4, l5, l6, l7, l8, l9, l10⟩ := table_lengths
  have m1 := mask_le (d >>> 1) 7; have m3 := fun x => mask_le x 3; have m7 := fun x => mask_le x 7
  cases k with
  | plain => exact ⟨_, rfl⟩
  | hex w => exact ⟨_, rfl⟩
  | leverArmType =>
    simp only [render]; split
    · rename_i h; obtain ⟨s, hs⟩ := idx_ok _ v h; exact ⟨_, by rw [hs]; rfl⟩
    · exact ⟨_, rfl⟩
  | gnssId =>
    simp only [render]; split
    · rename_i h; exact idx_ok _ v h
    · exact ⟨_, rfl⟩
  | flagsEnable => exact ⟨_, rfl⟩
  | proto => exact ⟨_, rfl⟩
  | mode =>
    obtain ⟨a, ha⟩ := idx_ok charlenStr ((v >>> 6) &&& 0x03) (by have := m3 (v >>> 6); omega)
    obtain ⟨b, hb⟩ := idx_ok parityStr ((v >>> 9) &&& 0x07) (by have := m7 (v >>> 9); omega)
    obtain ⟨c, hc⟩ := idx_ok stopbitsStr ((v >>> 12) &&& 0x03) (by have := m3 (v >>> 12); omega)
    exact ⟨_, by simp only [render, ha, hb, hc]; rfl⟩
  | algFlags =>
    obtain ⟨a, ha⟩ := idx_ok Gen.U1_Flags_status_strings ((d >>> 1) &&& 0x07) (by omega)
    exact ⟨_, by simp only [render, ha]; rfl⟩
  | initStatus1 =>
    obtain ⟨a, ha⟩ := idx_ok Gen.X1_InitStatus1_wt_init_strings ((d >>> 0) &&& 0x03) (by have := m3 (d >>> 0); omega)
    obtain ⟨b, hb⟩ := idx_ok Gen.X1_InitStatus1_mnt_alg_strings ((d >>> 2) &&& 0x07) (by have := m7 (d >>> 2); omega)
    obtain ⟨c, hc⟩ := idx_ok Gen.X1_InitStatus1_ins_init_strings ((d >>> 5) &&& 0x03) (by have := m3 (d >>> 5); omega)
    exact ⟨_, by simp only [render, ha, hb, hc]; rfl⟩
  | initStatus2 =>
    obtain ⟨a, ha⟩ := idx_ok Gen.X1_InitStatus2_imu_init_strings ((d >>> 0) &&& 0x03) (by have := m3 (d >>> 0); omega)
    exact ⟨_, by simp only [render, ha]; rfl⟩
  | fusionMode =>
    simp only [render]; split
    · rename_i h; exact idx_ok _ v h
    · exact ⟨_, rfl⟩
  | sensStatus1 =>
    simp only [render]
    split
    · rename_i h; obtain ⟨a, ha⟩ := idx_ok _ _ h; exact ⟨_, by rw [ha]; rfl⟩
    · exact ⟨_, rfl⟩
  | sensStatus2 =>
    obtain ⟨a, ha⟩ := idx_ok Gen.X1_SensStatus2_calib_strings ((d >>> 0) &&& 0x03) (by have := m3 (d >>> 0); omega)
    obtain ⟨b, hb⟩ := idx_ok Gen.X1_SensStatus2_time_strings ((d >>> 2) &&& 0x03) (by have := m3 (d >>> 2); omega)
    exact ⟨_, by simp only [render, ha, hb]; rfl⟩
  | gpsFix =>
    simp only [render]; split
    · rename_i h; exact idx_ok _ v h
    · exact ⟨_, rfl⟩
  | navFlags => exact ⟨_, rfl⟩

/-- every rendered line starts with the field's name -/
theorem line_has_name (name : String) (k : RKind) (v d : Nat) :
    ∃ t, line name k v d = .ok (name ++ ": " ++ t) := by
  obtain ⟨s, hs⟩ := render_total k v d
  exact ⟨s, by simp [line, hs, Except.map]⟩

/-- **str() never raises and names the message and every field** -/
theorem frame_text_total (name : String) (cid : Cid) (fields : List (String × RKind × Nat × Nat)) :
    ∃ hd ls, frameText name cid fields = .ok (hd :: ls) ∧ name.toList <+: hd.toList ∧ ls.length = fields.length ∧
      ∀ i (h : i < fields.length) (h' : i < ls.length), (fields[i].1 ++ ": ").toList <+: (ls[i]).toList := by
  have hm : ∀ fs : List (String × RKind × Nat × Nat), ∃ ls : List String,
      (fs.mapM fun f => line f.1 f.2.1 f.2.2.1 f.2.2.2) = .ok ls ∧ ls.length = fs.length ∧
      ∀ i (h : i < fs.length) (h' : i < ls.length), (fs[i].1 ++ ": ").toList <+: (ls[i]).toList := by
    intro fs
    induction fs with
    | nil => exact ⟨[], rfl, rfl, fun i h => absurd h (by simp)⟩
    | cons f rest ih =>
      obtain ⟨ls, h1, h2, h3⟩ := ih
      obtain ⟨t, ht⟩ := line_has_name f.1 f.2.1 f.2.2.1 f.2.2.2
      refine ⟨(f.1 ++ ": " ++ t) :: ls, ?_, by simp [h2], ?_⟩
      · simp only [List.mapM_cons, ht, h1]; rfl
      · intro i h h'
        cases i with
        | zero => simp [String.toList_append, List.append_assoc]
        | succ j => simpa using h3 j (by simpa using h) (by simpa using h')
  obtain ⟨ls, h1, h2, h3⟩ := hm fields
  refine ⟨name ++ " cls:" ++ hexText 2 cid.cls ++ " id:" ++ hexText 2 cid.id, ls,
    by simp [frameText, h1, Except.map], ?_, h2, h3⟩
  simp [String.toList_append, List.append_assoc]

/-- **the log level never changes behaviour**: same result, same transmissions, no exception, for every
    request frame, server state and receiver behaviour -/
theorem level_irrelevant (s : Srv) (env : Env) (lg : Log) (req : Req) (name : String)
    (fields : List (String × RKind × Nat × Nat)) :
    setAtLevel true s env lg req name fields = setAtLevel false s env lg req name fields := by
  obtain ⟨hd, ls, h, -⟩ := frame_text_total name req.cid fields
  simp [setAtLevel, h]

/-- the same for any action guarded by a DEBUG rendering of a frame — `poll()`, `set_mga()`,
    `fire_and_forget()` (`_send` renders the request), `_wait` (renders the frame it received) -/
theorem level_irrelevant_any {α : Type} (name : String) (cid : Cid) (fields : List (String × RKind × Nat × Nat))
    (action : α) : atLevel true name cid fields action = atLevel false name cid fields action := by
  obtain ⟨hd, ls, h, -⟩ := frame_text_total name cid fields
  simp [atLevel, h]

/-- non-vacuity: every value of the ESF-STATUS sensor byte renders; type 63 is `<invalid>`, no IndexError -/
example : (match render .sensStatus1 0xFF 0xFF with | .ok s => s | .error _ => "EXC") = "<invalid>, used, ready" := by decide
example : (match render .mode 0x000008D0 0 with | .ok s => s | .error _ => "EXC") = "8 bits, none, 1 stop bit(s)" := by decide

/-! ### configuration items (`CfgKeyData.__str__`, the fields of VALGET / VALSET frames) -/

/-- an item of a valid width renders — whatever group, item, signedness and value — and the text
    starts with the field's name -/
theorem cfgitem_text_total (name : String) (c : CfgItem) (hb : validBits c.bits) :
    ∃ rest, c.text name = .ok (name ++ ":" ++ rest) := by
  unfold CfgItem.text
  rw [buildHeader_valid _ _ _ hb, bind_ok]
  rcases hb with h | h | h | h | h <;> simp only [h] <;>
    exact ⟨_, by simp only [String.append_assoc]; rfl⟩

/-- an item of any other width does not render: `ValueError` (reachable only through `from_key` with a
    key id whose size code is 0, 6 or 7 — an item that `pack()` rejects as well, C14) -/
theorem cfgitem_text_invalid (name : String) (c : CfgItem) (hb : ¬ validBits c.bits) :
    c.text name = .error .valueError := by
  unfold CfgItem.text
  rw [buildHeader_invalid _ _ _ hb, bind_error]

/-- every item decoded from a payload renders -/
theorem decoded_item_renders (name : String) (s : List Nat) (hs : Spec.Bytes s) (c : CfgItem) (n : Nat)
    (h : CfgItem.unpack s = .ok (c, n)) : ∃ rest, c.text name = .ok (name ++ ":" ++ rest) := by
  rcases unpack_dichotomy s hs with he | ⟨c', n', h', -, -, hv, -, -⟩
  · rw [he] at h; cases h
  · rw [h'] at h; cases h; exact cfgitem_text_total name c hv

end C19

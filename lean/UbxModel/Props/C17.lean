import UbxModel.Model.Helpers
import UbxModel.Spec.Helpers
import UbxModel.Proofs.Codec
import UbxModel.Gen.Layouts
import UbxModel.Proofs.Presets
/-!
# C17 — Convenience setters change exactly the documented fields of the right block

-/
namespace C17
open Ubx

theorem findEntry_spec (blocks : List GnssBlock) (system pos : Nat) (h : findEntry blocks system = some pos) :
    ∃ hb : pos < blocks.length, blocks[pos].gnssId = system ∧ ∀ j (hj : j < pos), blocks[j].gnssId ≠ system := by
  simp only [findEntry, List.findIdx?_eq_some_iff_getElem] at h
  obtain ⟨hb, h1, h2⟩ := h
  refine ⟨hb, by simpa using h1, fun j hj => ?_⟩
  have := h2 j hj
  simpa using this

theorem findEntry_none (blocks : List GnssBlock) (system : Nat) (h : findEntry blocks system = none) :
    ∀ b ∈ blocks, b.gnssId ≠ system := by
  simp only [findEntry, List.findIdx?_eq_none_iff] at h
  intro b hb
  simpa using h b hb

/-- **enable_gnss.** For every block list — any length, order, duplicates, flag words — and every
    system: the result has the same length; the block at the first position whose `gnssId` equals the
    system has bit 0 of its flags set and every other field unchanged; every other block is unchanged;
    and if no block has that `gnssId` nothing changes at all. -/
theorem enable_spec (blocks : List GnssBlock) (system : Nat) :
    (enableGnss blocks system).length = blocks.length ∧
    (∀ pos, findEntry blocks system = some pos →
      ∀ j (hj : j < blocks.length) (hj' : j < (enableGnss blocks system).length),
        (enableGnss blocks system)[j] =
          if j = pos then { blocks[j] with flags := blocks[j].flags ||| 1 } else blocks[j]) ∧
    (findEntry blocks system = none → enableGnss blocks system = blocks) := by
  unfold enableGnss
  cases h : findEntry blocks system with
  | none => simp
  | some pos =>
    refine ⟨by simp [modifyAt], ?_, by simp⟩
    intro pos' hp j hj hj'
    simp only [Option.some.injEq] at hp
    subst hp
    simp only [modifyAt, List.getElem_modify, flagsEnable]
    split
    · rename_i he; subst he; simp
    · rename_i he; have : ¬ j = pos := fun e => he e.symm; simp [this]

/-- **disable_gnss.** Dually: bit 0 cleared, nothing else. -/
theorem disable_spec (blocks : List GnssBlock) (system : Nat) :
    (disableGnss blocks system).length = blocks.length ∧
    (∀ pos, findEntry blocks system = some pos →
      ∀ j (hj : j < blocks.length) (hj' : j < (disableGnss blocks system).length),
        (disableGnss blocks system)[j] =
          if j = pos then { blocks[j] with flags := blocks[j].flags - blocks[j].flags % 2 } else blocks[j]) ∧
    (findEntry blocks system = none → disableGnss blocks system = blocks) := by
  unfold disableGnss
  cases h : findEntry blocks system with
  | none => simp
  | some pos =>
    refine ⟨by simp [modifyAt], ?_, by simp⟩
    intro pos' hp j hj hj'
    simp only [Option.some.injEq] at hp
    subst hp
    simp only [modifyAt, List.getElem_modify, flagsDisable]
    split
    · rename_i he; subst he; simp
    · rename_i he; have : ¬ j = pos := fun e => he e.symm; simp [this]

/-- setting bit 0 changes only bit 0: the other bits (`v / 2`) are kept and the result is odd -/
theorem enable_only_bit0 (v : Nat) : (v ||| 1) / 2 = v / 2 ∧ (v ||| 1) % 2 = 1 := by
  constructor
  · have := @Nat.or_div_two v 1; simpa using this
  · rw [Nat.or_mod_two_eq_one]; right; rfl
/-- clearing bit 0 changes only bit 0 -/
theorem disable_only_bit0 (v : Nat) : (v - v % 2) / 2 = v / 2 ∧ (v - v % 2) % 2 = 0 := by omega

/-- the pinned tree's failing cases, as non-vacuity: GPS alone at index 0; GPS behind GLONASS -/
example : enableGnss [⟨0, 8, 16, 0x01010000⟩] GNSS_GPS = [⟨0, 8, 16, 0x01010001⟩] := by decide
example : enableGnss [⟨6, 8, 16, 0x01010000⟩, ⟨0, 8, 16, 0x01010000⟩] GNSS_GPS =
    [⟨6, 8, 16, 0x01010000⟩, ⟨0, 8, 16, 0x01010001⟩] := by decide
example : disableGnss [⟨6, 8, 16, 0x01010001⟩, ⟨0, 8, 16, 0x01010001⟩, ⟨5, 0, 3, 5⟩] GNSS_QZSS =
    [⟨6, 8, 16, 0x01010001⟩, ⟨0, 8, 16, 0x01010001⟩, ⟨5, 0, 3, 4⟩] := by decide

/-- the navigation-rate helper for every admitted rate -/
theorem rate_spec : ∀ r, 1 ≤ r → r ≤ 10 → setRateInHz r = (1000 / r, 1) := fun _ _ _ => rfl
example : (List.range 11).tail.map (fun r => (setRateInHz r).1) = [1000, 500, 333, 250, 200, 166, 142, 125, 111, 100] := by
  decide

/-- save / revert configuration for every mask -/
theorem cfg_save_spec (m : Nat) : cfgSave m = Spec.cfgSave m := rfl
theorem cfg_reset_spec (m : Nat) : cfgReset m = Spec.cfgRevert m := rfl

/-- receiver reset / start / stop -/
theorem rst_spec : rstWarmStart = Spec.rstWarm ∧ rstColdStart = Spec.rstCold ∧ rstStart = Spec.rstGnssStart ∧
    rstStop = Spec.rstGnssStop := ⟨rfl, rfl, rfl, rfl⟩

/-- navigation rate, every admitted rate -/
theorem rate_matches_spec (r : Nat) : setRateInHz r = Spec.rate r := rfl

/-- …also the rates in range that are no whole numbers (2.5 Hz, 1.25 Hz, 25/4 Hz): `num/den` with `den ≤ num ≤ 10·den` -/
theorem rate_fraction_matches_spec (num den : Nat) : setRateQ num den = Spec.rateQ num den := rfl

/-- what that value is, said without a division: the period set is the largest whole number of milliseconds not longer than
    one solution interval, `measRate · num ≤ 1000 · den < (measRate + 1) · num`; and a whole rate is the fraction over 1 -/
theorem rate_fraction_is_floor (num den : Nat) (h : 0 < num) :
    (setRateQ num den).1 * num ≤ 1000 * den ∧ 1000 * den < ((setRateQ num den).1 + 1) * num ∧ (setRateQ num den).2 = 1 := by
  refine ⟨Nat.div_mul_le_self _ _, ?_, rfl⟩
  show 1000 * den < (1000 * den / num + 1) * num
  have h1 := Nat.div_add_mod (1000 * den) num
  have h2 := Nat.mod_lt (1000 * den) h
  rw [Nat.add_mul, Nat.one_mul, Nat.mul_comm (1000 * den / num) num]
  omega

theorem rate_whole_is_fraction (r : Nat) : setRateQ r 1 = setRateInHz r := by simp [setRateQ, setRateInHz]

example : (setRateQ 5 2).1 = 400 ∧ (setRateQ 5 4).1 = 800 ∧ (setRateQ 25 4).1 = 160 ∧ (setRateQ 15 4).1 = 266 := by decide

/-- backup / clear -/
theorem sos_spec : sosBackup = Spec.sosBackup ∧ sosClear = Spec.sosClear := ⟨rfl, rfl⟩

/-- the lever-arm query returns the first block of the requested type, or nothing -/
theorem lever_arm_spec (arms : List (Nat × Int × Int × Int)) (t : Nat) :
    (∀ r, leverArm arms t = some r → ∃ (i : Nat) (h : i < arms.length), arms[i] = (t, r) ∧
      ∀ (j : Nat) (hj : j < i), (arms[j]'(Nat.lt_trans hj h)).1 ≠ t) ∧
    (leverArm arms t = none → ∀ a ∈ arms, a.1 ≠ t) := by
  constructor
  · intro r hr
    simp only [leverArm, Option.map_eq_some_iff] at hr
    obtain ⟨a, ha, rfl⟩ := hr
    rw [List.find?_eq_some_iff_getElem] at ha
    obtain ⟨h1, i, hi, h2, h3⟩ := ha
    refine ⟨i, hi, ?_, fun j hj => ?_⟩
    · rw [h2]; simp at h1; rw [← h1]
    · have := h3 j hj; simpa using this
  · intro hn a ha
    simp only [leverArm, Option.map_eq_none_iff, List.find?_eq_none] at hn
    simpa using hn a ha

/-- **UTC time**: the field values the helper sets, for every date/time: type 0x10, version 0, ref 0,
    leapSecs −128 (unknown), the six date/time fields as given, ns 0, tAccS 10, tAccNs 0 … -/
theorem utc_values (y mo d h mi s : Nat) :
    setDatetime y mo d h mi s = [0x10, 0, 0, -128, (y : Int), (mo : Int), (d : Int), (h : Int), (mi : Int), (s : Int), 0, 0, 10, 0, 0] := rfl

/-- … which the generated MGA-INI-TIME_UTC table encodes to the prescribed 24-byte payload
    (evaluated for 2020-09-05 06:40:48, the date of the repository's own parser test frame) -/
example : (match Gen.UbxMgaIniTimeUtc.encode ((setDatetime 2020 9 5 6 40 48).map Val.int) with
      | .ok bs => bs | .error _ => []) = Spec.iniTimeUtc 2020 9 5 6 40 48 := by decide

/-- **lever arm**: in range the helper yields version 0, one configuration, the type and the three
    offsets; out of range it raises (`AssertionError`) -/
theorem esfla_set_spec (ty x y z : Int) (ht : ty ≤ 1) (hx : -1000 ≤ x ∧ x ≤ 1000) (hy : -1000 ≤ y ∧ y ≤ 1000)
    (hz : -1000 ≤ z ∧ z ≤ 1000) : esflaSet ty x y z = some [0, 1, 0, ty, 0, x, y, z] := by
  simp [esflaSet, ht, hx, hy, hz]
example : (match Gen.UbxCfgEsflaSet.encode (([0, 1, 0, 1, 0, -1000, 250, 1000] : List Int).map Val.int) with
      | .ok bs => bs | .error _ => []) = [0, 1, 0, 0, 1, 0, 0x18, 0xFC, 0xFA, 0x00, 0xE8, 0x03] := by decide

/-- the presets on receivers that list each system once: GPS+SBAS+GLONASS on, the others off (IRNSS untouched) -/
example : gpsGlonass ((List.range 8).map fun i => ⟨i, 0, 0, if i % 2 = 0 then 0x01010001 else 0x01010000⟩)
    = [⟨0, 0, 0, 0x01010001⟩, ⟨1, 0, 0, 0x01010001⟩, ⟨2, 0, 0, 0x01010000⟩, ⟨3, 0, 0, 0x01010000⟩,
       ⟨4, 0, 0, 0x01010000⟩, ⟨5, 0, 0, 0x01010000⟩, ⟨6, 0, 0, 0x01010001⟩, ⟨7, 0, 0, 0x01010000⟩] := by decide
example : gpsGalileoBeidou [⟨6, 0, 0, 1⟩, ⟨3, 0, 0, 0⟩, ⟨0, 0, 0, 0⟩] = [⟨6, 0, 0, 0⟩, ⟨3, 0, 0, 1⟩, ⟨0, 0, 0, 1⟩] := by decide

/-- the calls `gps_glonass()` makes: (system, operation on the flags word) -/
def glonassOps : List (Nat × (Nat → Nat)) :=
  [(GNSS_GPS, flagsEnable), (GNSS_SBAS, flagsEnable), (GNSS_GLONASS, flagsEnable), (GNSS_Galileo, flagsDisable),
   (GNSS_BeiDou, flagsDisable), (GNSS_IMES, flagsDisable), (GNSS_QZSS, flagsDisable)]

/-- the calls `gps_galileo_beidou()` makes -/
def galileoBeidouOps : List (Nat × (Nat → Nat)) :=
  [(GNSS_GPS, flagsEnable), (GNSS_SBAS, flagsEnable), (GNSS_Galileo, flagsEnable), (GNSS_BeiDou, flagsEnable),
   (GNSS_IMES, flagsDisable), (GNSS_QZSS, flagsDisable), (GNSS_GLONASS, flagsDisable)]

/-- the tables are the documented presets: {GPS, SBAS, GLONASS} on and {Galileo, BeiDou, IMES, QZSS} off;
    {GPS, SBAS, Galileo, BeiDou} on and {IMES, QZSS, GLONASS} off (u-blox `gnssId` numbers) -/
example : glonassOps.map (·.1) = [0, 1, 6, 2, 3, 4, 5] ∧ galileoBeidouOps.map (·.1) = [0, 1, 2, 3, 4, 5, 6] := by decide

/-- **`gps_glonass()`, every block list** (any length, order, duplicates, flag words): the list keeps
    its length; block `j` is changed only if it is the first block of its system and the preset names
    that system, and then only bit 0 of its flags word is set resp. cleared (`enable_only_bit0`,
    `disable_only_bit0`); all other blocks, and all other fields, are unchanged. -/
theorem gps_glonass_spec (blocks : List GnssBlock) (j : Nat) (b : GnssBlock) (hb : blocks[j]? = some b) :
    (gpsGlonass blocks).length = blocks.length ∧
    (gpsGlonass blocks)[j]? = some (match glonassOps.find? (fun op => op.1 == b.gnssId) with
      | some op => if findEntry blocks b.gnssId = some j then setFlags op.2 b else b
      | none => b) :=
  ⟨applyOps_length glonassOps blocks, preset_get glonassOps (by decide) blocks j b hb⟩

/-- **`gps_galileo_beidou()`, every block list** -/
theorem gps_galileo_beidou_spec (blocks : List GnssBlock) (j : Nat) (b : GnssBlock) (hb : blocks[j]? = some b) :
    (gpsGalileoBeidou blocks).length = blocks.length ∧
    (gpsGalileoBeidou blocks)[j]? = some (match galileoBeidouOps.find? (fun op => op.1 == b.gnssId) with
      | some op => if findEntry blocks b.gnssId = some j then setFlags op.2 b else b
      | none => b) :=
  ⟨applyOps_length galileoBeidouOps blocks, preset_get galileoBeidouOps (by decide) blocks j b hb⟩

end C17

import UbxModel.Model.Gpsd
import UbxModel.Model.Tty
import UbxModel.Proofs.ServerSent
import UbxModel.Props.C01
/-!
# C12 — All (re)transmissions carry the same canonical bytes; back ends frame them right
-/
namespace C12
open Ubx Spec Ubx.Gpsd

/-- the bytes a request transmits: the canonical wire encoding of its class/id and packed payload -/
theorem wire_is_canonical (r : Req) (h : r.payload.length < 65536) :
    r.wire = wire r.cid.cls r.cid.id r.payload :=
  C01.toBytes_eq_wire { cls := r.cid.cls, id := r.cid.id, data := r.payload } h

/-- **every transmission — all retries included, whatever the receiver and the transmit results —
    is that same byte string**, at most `retries + 1` times -/
theorem set_all_same (s : Srv) (env : Env) (lg : Log) (req : Req) :
    ∃ k, k ≤ s.retries + 1 ∧ (s.set env lg req).2.2.sent = lg.sent ++ List.replicate k req.wire :=
  setLoop_sent env s.reg s.delay req (s.retries + 1) (s.parser.setFilters [ackCid, nakCid]) lg

theorem setMga_all_same (s : Srv) (env : Env) (lg : Log) (req : Req) :
    ∃ k, k ≤ s.retries + 1 ∧ (s.setMga env lg req).2.2.sent = lg.sent ++ List.replicate k req.wire :=
  mgaLoop_sent env s.reg s.delay req (s.retries + 1) (s.parser.setFilter mgaAckCid) lg

theorem poll_all_same (s : Srv) (env : Env) (lg : Log) (req : Req) :
    ∃ k, k ≤ s.retries + 1 ∧ (s.poll env lg req).2.2.sent = lg.sent ++ List.replicate k req.wire :=
  pollLoop_sent env (s.reg.register req.cid req.response) s.delay req (s.retries + 1) _ lg

theorem fireAndForget_same (s : Srv) (env : Env) (lg : Log) (req : Req) :
    (s.fireAndForget env lg req).2.sent = lg.sent ++ [req.wire] := rfl

/-! ### serial back end -/

/-- success is reported iff `write()` reports every byte written -/
theorem tty_transmit (written : Nat) (data : List Nat) : Tty.transmit written data = true ↔ written = data.length := by
  simp [Tty.transmit]

/-- link recovery leaves the port as open as it was, at the previous bit rate, after setting 9600 in between -/
theorem tty_recover (p : Tty.Port) :
    (Tty.recover p).isOpen = p.isOpen ∧ (Tty.recover p).baud = p.baud ∧
    (Tty.recover p).log = p.log ++ [("baudrate", 9600), ("baudrate", p.baud)] := ⟨rfl, rfl, rfl⟩

/-! ### gpsd back end -/

theorem unhex_hex_digit (n : Nat) (h : n < 16) : unhexDigit (hexDigit n) = n := by
  unfold hexDigit unhexDigit; split <;> split <;> omega

/-- the command carries the bytes recoverably: un-hexlifying the hexlified data gives the data back -/
theorem unhexlify_hexlify (d : List Nat) (h : Bytes d) : unhexlify (hexlify d) = d := by
  induction d with
  | nil => rfl
  | cons b bs ih =>
    have hb : b < 256 := h b (by simp)
    simp only [hexlify, unhexlify]
    rw [unhex_hex_digit (b / 16) (by omega), unhex_hex_digit (b % 16) (by omega), ih (fun x hx => h x (by simp [hx]))]
    congr 1; omega

/-- the command is `&`, the selected device, `=`, and the hexadecimal form of exactly the frame bytes -/
theorem gpsd_command (device data : List Nat) :
    command device data = [38] ++ device ++ [61] ++ hexlify data ∧ (hexlify data).length = 2 * data.length := by
  refine ⟨rfl, ?_⟩
  induction data with
  | nil => rfl
  | cons b bs ih => simp [hexlify, ih]; omega

/-- success is reported only if a reply was read and contains `OK` or `ACK`; never after a socket error -/
theorem gpsd_success_only_if (r : Reply) (h : transmitOk r = true) :
    ∃ reply, r = .data reply ∧ (contains reply [79, 75] = true ∨ contains reply [65, 67, 75] = true) := by
  cases r with
  | socketError => simp [transmitOk] at h
  | data reply => exact ⟨reply, rfl, by simpa [transmitOk] using h⟩

example : transmitOk (.data [123, 34, 99, 108, 97, 115, 115, 34, 58, 34, 65, 67, 75, 34, 125]) = true := by decide
example : transmitOk (.data [69, 82, 82, 79, 82]) = false := by decide

end C12

import UbxModel.Model.Tty
import UbxModel.Proofs.ParserBasic
import UbxModel.Proofs.Nmea
import UbxModel.Proofs.Scan
import UbxModel.Proofs.ParserScan
import UbxModel.Proofs.ParserComplete
/-!
# C18 — Bit-rate scan says yes only on real frames, and always when two arrive
-/
namespace C18
open Ubx Ubx.Tty

/-- the parsers inside `scan()` have seen exactly the bytes received so far -/
def Inv (s : ScanState) : Prop :=
  s.ubx = (Parser.fresh none).process s.seen ∧ s.nmea = Nmea.P.fresh.process s.seen

theorem inv_init (t0 : Nat) : Inv { now := t0 } := ⟨rfl, rfl⟩

/-- **verdict.** `scan()` answers true exactly when, on the bytes received up to that moment, the UBX
    parser has counted two frames or the NMEA parser two sentences — counts which by C03 / C16 are the
    numbers of checksum-valid frames / sentences present in those bytes; it answers false only if on
    *all* bytes received before the deadline both counts stayed below two.  (When the UBX parser
    triggers, the last byte is not fed to the NMEA parser any more — as in the code.) -/
theorem verdict (env : Env) (tEnd : Nat) (s : ScanState) (h : Inv s)
    (hlow : s.ubx.framesRx < 2 ∧ s.nmea.framesRx < 2) :
    let r := scanLoop env tEnd s
    (r.1 = true → ((Parser.fresh none).process r.2.seen).framesRx ≥ 2 ∨ (Nmea.P.fresh.process r.2.seen).framesRx ≥ 2) ∧
    (r.1 = false → ((Parser.fresh none).process r.2.seen).framesRx < 2 ∧ (Nmea.P.fresh.process r.2.seen).framesRx < 2) := by
  fun_induction scanLoop env tEnd s with
  | case1 s hlt r now' hnone ih => exact ih h hlow
  | case2 s hlt r now' d hsome u s1 hge =>
    have hu : u = (Parser.fresh none).process (s.seen ++ [d]) := by
      simp only [u, h.1, Parser.process_append]
    exact ⟨fun _ => Or.inl (by rw [← hu]; exact hge), fun hf => by simp at hf⟩
  | case3 s hlt r now' d hsome u s1 hge n s2 hge2 =>
    have hn : n = Nmea.P.fresh.process (s.seen ++ [d]) := by
      simp only [n, h.2, Nmea.P.process_append]
    exact ⟨fun _ => Or.inr (by rw [← hn]; exact hge2), fun hf => by simp at hf⟩
  | case4 s hlt r now' d hsome u s1 hge n s2 hge2 ih =>
    have hu : u = (Parser.fresh none).process (s.seen ++ [d]) := by
      simp only [u, h.1, Parser.process_append]
    have hn : n = Nmea.P.fresh.process (s.seen ++ [d]) := by
      simp only [n, h.2, Nmea.P.process_append]
    have h1 : u.framesRx < 2 := by omega
    have h2 : n.framesRx < 2 := by omega
    exact ih ⟨hu, hn⟩ ⟨h1, h2⟩
  | case5 s hnl =>
    refine ⟨fun hf => by simp at hf, fun _ => ?_⟩
    rw [← h.1, ← h.2]; exact hlow

/-- **time.** `scan()` returns no later than the interval plus one read time-out, and makes at most
    one read per tick -/
theorem time (env : Env) (T : Nat) (hT : 1 ≤ T ∧ ∀ j, (env.rd j).1 ≤ T) (tEnd : Nat) (s : ScanState) :
    (scanLoop env tEnd s).2.now ≤ max s.now (tEnd + T) ∧ s.now ≤ (scanLoop env tEnd s).2.now ∧
    (scanLoop env tEnd s).2.j - s.j ≤ (scanLoop env tEnd s).2.now - s.now := by
  fun_induction scanLoop env tEnd s with
  | case1 s hlt r now' hnone ih =>
    have := hT.2 s.j
    simp only [now', tick, r] at ih ⊢
    omega
  | case2 s hlt r now' d hsome u s1 hge =>
    have := hT.2 s.j
    simp only [s1, now', tick, r]
    omega
  | case3 s hlt r now' d hsome u s1 hge n s2 hge2 =>
    have := hT.2 s.j
    simp only [s2, s1, now', tick, r]
    omega
  | case4 s hlt r now' d hsome u s1 hge n s2 hge2 ih =>
    have := hT.2 s.j
    simp only [s2, s1, now', tick, r] at ih ⊢
    omega
  | case5 s hnl => simp; omega

/-- **C18 for `scan()`** -/
theorem scan_correct (env : Env) (t0 interval : Nat) :
    let r := scan env t0 interval
    (r.1 = true → ((Parser.fresh none).process r.2.seen).framesRx ≥ 2 ∨ (Nmea.P.fresh.process r.2.seen).framesRx ≥ 2) ∧
    (r.1 = false → ((Parser.fresh none).process r.2.seen).framesRx < 2 ∧ (Nmea.P.fresh.process r.2.seen).framesRx < 2) := by
  exact verdict env (t0 + interval) { now := t0 } (inv_init t0)
    ⟨by show (0 : Nat) < 2; omega, by show (0 : Nat) < 2; omega⟩

/-- serial `_transmit`: success iff all bytes were written; `_recover`: port stays open at the old rate -/
theorem transmit_iff (written : Nat) (data : List Nat) : transmit written data = true ↔ written = data.length := by
  simp [transmit]
theorem recover_keeps (p : Port) : (recover p).isOpen = p.isOpen ∧ (recover p).baud = p.baud := ⟨rfl, rfl⟩

/-- **always when two arrive.** If the bytes delivered by the reads that start before the deadline
    have a prefix on which one of the two parsers counts two frames, `scan()` says yes. -/
theorem yes_if_counted (env : Env) (t0 interval : Nat) (pre post : List Nat)
    (hrx : received env (t0 + interval) t0 0 = pre ++ post)
    (h2 : ((Parser.fresh none).process pre).framesRx ≥ 2 ∨ (Nmea.P.fresh.process pre).framesRx ≥ 2) :
    (scan env t0 interval).1 = true := by
  cases hr : (scan env t0 interval).1 with
  | true => rfl
  | false =>
    exfalso
    have hseen := scan_false_seen env (t0 + interval) { now := t0 } hr
    obtain ⟨-, hlow⟩ := scan_correct env t0 interval
    obtain ⟨l1, l2⟩ := hlow hr
    have hs : (scan env t0 interval).2.seen = pre ++ post := by
      show (scanLoop env (t0 + interval) { now := t0 }).2.seen = _
      rw [hseen]; simpa using hrx
    rw [hs] at l1 l2
    rcases h2 with h | h
    · have := process_framesRx_mono ((Parser.fresh none).process pre) post
      rw [← Parser.process_append] at this
      omega
    · have := Nmea.process_framesRx_mono (Nmea.P.fresh.process pre) post
      rw [← Nmea.P.process_append] at this
      omega

/-- in terms of the stream grammar of C02: two checksum-valid UBX frames among any filler, corrupted
    frames and over-long headers ⇒ yes -/
theorem yes_if_two_ubx_frames (env : Env) (t0 interval : Nat) (items : List Item) (hok : ∀ it ∈ items, it.ok)
    (hv : validCount items ≥ 2) (post : List Nat)
    (hrx : received env (t0 + interval) t0 0 = items.flatMap Item.bytes ++ post) :
    (scan env t0 interval).1 = true := by
  refine yes_if_counted env t0 interval _ post hrx (Or.inl ?_)
  obtain ⟨-, -, -, h4⟩ := (Parser.fresh none).process_items rfl items hok [] rfl
  simp only [List.append_nil] at h4
  rw [h4]
  show 0 + validCount items ≥ 2
  omega

/-- in terms of the NMEA specification of C16: two positions at which a valid sentence starts ⇒ yes -/
theorem yes_if_two_nmea_sentences (env : Env) (t0 interval : Nat) (pre post : List Nat)
    (hv : Spec.Nmea.count pre ≥ 2) (hrx : received env (t0 + interval) t0 0 = pre ++ post) :
    (scan env t0 interval).1 = true := by
  refine yes_if_counted env t0 interval pre post hrx (Or.inr ?_)
  rw [Nmea.count_fresh]; exact hv

/-- everything `scan()` has seen came out of a read -/
theorem seen_bytes (env : Env) (hb : ∀ j d, (env.rd j).2 = some d → d < 256) (tEnd : Nat) (s : ScanState)
    (hs : Spec.Bytes s.seen) : Spec.Bytes (scanLoop env tEnd s).2.seen := by
  fun_induction scanLoop env tEnd s with
  | case1 s hlt r now' hnone ih => exact ih hs
  | case2 s hlt r now' d hsome u s1 hge =>
    intro x hx
    simp only [s1, List.mem_append, List.mem_singleton] at hx
    rcases hx with h | h
    · exact hs x h
    · rw [h]; exact hb s.j d hsome
  | case3 s hlt r now' d hsome u s1 hge n s2 hge2 =>
    intro x hx
    simp only [s2, s1, List.mem_append, List.mem_singleton] at hx
    rcases hx with h | h
    · exact hs x h
    · rw [h]; exact hb s.j d hsome
  | case4 s hlt r now' d hsome u s1 hge n s2 hge2 ih =>
    apply ih
    intro x hx
    simp only [s2, s1, List.mem_append, List.mem_singleton] at hx
    rcases hx with h | h
    · exact hs x h
    · rw [h]; exact hb s.j d hsome
  | case5 s hnl => exact hs

/-- **the verdict in terms of the specifications only.** `scan()` says yes only if the bytes it has
    received contain two checksum-valid UBX frames (events of the reference scanner) or two valid NMEA
    sentences (positions counted by the NMEA specification); it says no only if the bytes received
    before the deadline contain fewer than two of each. -/
theorem verdict_spec (env : Env) (t0 interval : Nat) (hb : ∀ j d, (env.rd j).2 = some d → d < 256) :
    let r := scan env t0 interval
    (r.1 = true → evGood (Spec.scan 1000 r.2.seen) ≥ 2 ∨ Spec.Nmea.count r.2.seen ≥ 2) ∧
    (r.1 = false → evGood (Spec.scan 1000 r.2.seen) < 2 ∧ Spec.Nmea.count r.2.seen < 2) := by
  intro r
  have hseen : Spec.Bytes r.2.seen := seen_bytes env hb (t0 + interval) { now := t0 } (fun _ h => by simp at h)
  obtain ⟨h1, h2⟩ := scan_correct env t0 interval
  have e1 : ((Parser.fresh none).process r.2.seen).framesRx = evGood (Spec.scan 1000 r.2.seen) := by
    have := (parser_refines_scan none r.2.seen hseen [r.2.seen] (by simp)).2
    simpa using this
  have e2 : (Nmea.P.fresh.process r.2.seen).framesRx = Spec.Nmea.count r.2.seen := Nmea.count_fresh _
  rw [← e1, ← e2]
  exact ⟨h1, h2⟩

end C18

import UbxModel.Proofs.ParserComplete
import UbxModel.Proofs.ParserScan
/-!
# C02 — The parser delivers every well-formed frame exactly once, in order, intact

A *stream* is a list of items — filler without a `B5 62` pair (NMEA text, arbitrary bytes, a
trailing lone `B5` included) followed by a frame-shaped sequence with arbitrary class, id,
payload (≤ 1000 bytes, sync bytes allowed) and checksum bytes, or by a 6-byte header that
announces more than 1000 bytes — and a final filler.  "Corrupted anywhere except in the length
field" is the case of arbitrary class/id/payload/checksum bytes.
-/
namespace C02
open Ubx Spec

/-- a frame-shaped sequence with the right checksum is exactly the wire format of the specification -/
theorem valid_frame_is_wire (cls id : Nat) (pl : List Nat) (a b : Nat)
    (hv : (Shape.frame cls id pl a b).valid = true) : frameBytes cls id pl a b = wire cls id pl := by
  simp only [Shape.valid, Bool.and_eq_true, beq_iff_eq] at hv
  have hc := fletcher_closed (body cls id pl)
  simp only [frameCk] at hv
  have h1 : fletcher (cls :: id :: (pl.length % 256) :: (pl.length / 256) :: pl) = fletcher (body cls id pl) := rfl
  rw [h1, hc] at hv
  simp only [frameBytes, wire, body]
  simp [← hv.1, ← hv.2, body]

/-- and conversely every `Spec.wire` frame is a valid frame shape -/
theorem wire_is_valid_frame (cls id : Nat) (pl : List Nat) :
    wire cls id pl = frameBytes cls id pl (ckA (body cls id pl)) (ckB (body cls id pl)) ∧
    (Shape.frame cls id pl (ckA (body cls id pl)) (ckB (body cls id pl))).valid = true := by
  have hc := fletcher_closed (body cls id pl)
  refine ⟨by simp [frameBytes, wire, body], ?_⟩
  simp only [Shape.valid, frameCk, Bool.and_eq_true, beq_iff_eq]
  have h1 : fletcher (cls :: id :: (pl.length % 256) :: (pl.length / 256) :: pl) = fletcher (body cls id pl) := rfl
  rw [h1, hc]
  exact ⟨rfl, rfl⟩

/-- **C02.** For every stream of items, every filter and every way of splitting the stream into
    chunks, a newly created parser ends up with: one data packet, payload intact, per valid item
    whose class/id passes the filter; one error marker per invalid item; nothing else; in stream
    order; and `frames_rx` equal to the number of valid items (whether filtered or not). -/
theorem complete (f : Option (List Cid)) (items : List Item) (hok : ∀ it ∈ items, it.ok)
    (tail : List Nat) (htail : noSyncPair tail = true)
    (chunks : List (List Nat)) (hchunks : chunks.flatten = items.flatMap Item.bytes ++ tail) :
    let p := chunks.foldl Parser.process (Parser.fresh f)
    p.queue = expectedPackets f items ∧ p.framesRx = validCount items ∧ p.filter = f := by
  intro p
  have hp : p = (Parser.fresh f).process (items.flatMap Item.bytes ++ tail) := by
    simp only [p, Parser.process_chunks, hchunks]
  have h := (Parser.fresh f).process_items rfl items hok tail htail
  rw [← hp] at h
  obtain ⟨-, h2, h3, h4⟩ := h
  exact ⟨by simpa [Parser.fresh] using h3, by simpa [Parser.fresh] using h4, by simpa [Parser.fresh] using h2⟩

/-- the same from any parser that is between frames (state `INIT`), e.g. after earlier traffic:
    what was queued and counted before is kept -/
theorem complete_from (p : Parser) (hst : p.st = .init) (items : List Item) (hok : ∀ it ∈ items, it.ok)
    (tail : List Nat) (htail : noSyncPair tail = true) :
    let p' := p.process (items.flatMap Item.bytes ++ tail)
    p'.queue = p.queue ++ expectedPackets p.filter items ∧ p'.framesRx = p.framesRx + validCount items := by
  have h := p.process_items hst items hok tail htail
  exact ⟨h.2.2.1, h.2.2.2⟩

/-- the payload bound of the property is the one of the code: 0..1000 inclusive -/
theorem payload_bound : MAXLEN = 1000 := rfl

/-- a lone `B5` directly before a frame is admissible filler -/
example : noSyncPair [0x24, 0x47, 0x0d, 0x0a, 0xB5] = true := by decide

/-- non-vacuity: a stream with a lone `B5` gap, a payload made of sync pairs, an invalid item and a
    frame that does not pass the filter; evaluated -/
example :
    let ack : Item := ⟨[0xB5], .frame 5 1 [6, 1] 0x0F 0x38⟩
    let syn : Item := ⟨[0x24, 0x2A], .frame 5 1 [0xB5, 0x62, 0xB5, 0x62] 0x38 0x0D⟩
    let bad : Item := ⟨[], .frame 5 1 [6, 1] 0x0F 0x39⟩
    let oth : Item := ⟨[0], .frame 5 0 [6, 1] 0x0E 0x33⟩
    let p := (Parser.fresh (some [⟨5, 1⟩])).process ([ack, syn, bad, oth].flatMap Item.bytes)
    (p.queue = [.data ⟨5, 1⟩ [6, 1], .data ⟨5, 1⟩ [0xB5, 0x62, 0xB5, 0x62], .crcError] ∧ p.framesRx = 3) := by
  decide

end C02

/-! ### beyond the grammar: every byte string -/
namespace C02
open Ubx Spec

/-- **C02 and C03 in one statement.** For *every* byte string — not only streams of the grammar
    above —, every way of cutting it into chunks and every filter, a newly created parser queues
    exactly the packets of the events of the reference scanner `Spec.scan` (a whole-stream function
    that slices the input: at a sync pair with a complete header it takes the announced frame, or
    drops the six header bytes if more than 1000 payload bytes are announced; anywhere else it moves
    on by one byte), in order, and counts exactly its checksum-valid frames. -/
theorem refines_reference_scanner (f : Option (List Cid)) (s : List Nat) (hs : Bytes s) (chunks : List (List Nat))
    (hc : chunks.flatten = s) :
    (chunks.foldl Parser.process (Parser.fresh f)).queue = evPackets f (scan 1000 s) ∧
    (chunks.foldl Parser.process (Parser.fresh f)).framesRx = evGood (scan 1000 s) :=
  parser_refines_scan f s hs chunks hc

/-- the reference scanner on the pinned tree's failing input (a lone `B5` in front of a frame), on a
    corrupted frame followed by a good one, and on a truncated frame -/
example : scan 1000 [0xB5, 0xB5, 0x62, 0x05, 0x01, 0x02, 0x00, 0x06, 0x08, 0x16, 0x3F] = [.frame 5 1 [6, 8]] := by decide
example : scan 1000 ([0xB5, 0x62, 0x05, 0x01, 0x02, 0x00, 0x06, 0x08, 0x16, 0x3E] ++
    [0xB5, 0x62, 0x05, 0x01, 0x02, 0x00, 0x06, 0x08, 0x16, 0x3F]) = [.bad, .frame 5 1 [6, 8]] := by decide
example : scan 1000 [0x24, 0xB5, 0x62, 0x05, 0x01, 0x02, 0x00, 0x06, 0x08, 0x16] = [] := by decide

end C02


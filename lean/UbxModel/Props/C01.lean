import UbxModel.Model.Frame
import UbxModel.Proofs.Checksum
/-!
# C01 — Serialised frames are exact UBX wire format for every payload length
-/
namespace C01
open Ubx Spec

/-- the constants the code uses are the protocol's sync characters -/
theorem sync_bytes : Gen.sync1 = 0xB5 ∧ Gen.sync2 = 0x62 := ⟨rfl, rfl⟩

theorem length_bytes (n : Nat) (h : n < 65536) :
    (n >>> 0) &&& 0xFF = n % 256 ∧ (n >>> 8) &&& 0xFF = n / 256 := by
  rw [and_255, and_255, Nat.shiftRight_zero, Nat.shiftRight_eq_div_pow]
  omega

/-- Serialising any frame yields exactly sync, class, id, 16-bit little-endian length, the payload
    unchanged and the two Fletcher bytes over class … payload — for every class/id, every payload
    length 0..65535 and every payload content. -/
theorem toBytes_eq_wire (f : Frame) (hlen : f.data.length < 65536) :
    f.toBytes.2 = wire f.cls f.id f.data := by
  obtain ⟨h0, h8⟩ := length_bytes f.data.length hlen
  have hck : (((((f.ck.reset.add f.cls).add f.id).add (f.data.length % 256)).add (f.data.length / 256)).addAll f.data)
      = fletcher (body f.cls f.id f.data) := by
    simp [fletcher, body, Ck.addAll, Ck.reset]
  simp only [Frame.toBytes, Frame.calcChecksum, h0, h8, hck, fletcher_closed, Ck.value, wire, body,
    Gen.sync1, Gen.sync2]
  simp

/-- Serialising leaves payload, class and id unchanged … -/
theorem toBytes_keeps (f : Frame) :
    f.toBytes.1.data = f.data ∧ f.toBytes.1.cls = f.cls ∧ f.toBytes.1.id = f.id := ⟨rfl, rfl, rfl⟩

/-- … and serialising twice gives the same bytes (whatever state the first call left behind). -/
theorem toBytes_twice (f : Frame) : f.toBytes.1.toBytes.2 = f.toBytes.2 := by
  simp [Frame.toBytes, Frame.calcChecksum, Ck.reset]

/-- The format is unambiguous: the bytes determine class, id and payload. -/
theorem wire_injective (c i c' i' : Nat) (p p' : List Nat) (h : wire c i p = wire c' i' p') :
    c = c' ∧ i = i' ∧ p = p' := by
  simp only [wire, body, List.cons_append, List.nil_append, List.cons.injEq] at h
  obtain ⟨-, -, hc, hi, h1, h2, hp⟩ := h
  have hlen : p.length = p'.length := by omega
  have := List.append_inj hp hlen
  exact ⟨hc, hi, this.1⟩

/-- non-vacuity: a 300-byte payload (length bytes `2C 01`), evaluated -/
example : (({ cls := 0x06, id := 0x8a, data := List.replicate 300 0xB5 } : Frame).toBytes.2.take 6)
    = [0xB5, 0x62, 0x06, 0x8a, 0x2C, 0x01] := by decide +kernel

/-- the expression of the pinned tree, `(length >> 0) % 0xFF`, is wrong from 255 bytes upwards -/
example : (255 >>> 0) % 0xFF = 0 ∧ (255 : Nat) % 256 = 255 := by decide

end C01

import UbxModel.Proofs.ServerIndependencePoll
import UbxModel.Proofs.ServerRegistry
import UbxModel.Proofs.ServerCalls
import UbxModel.Gen.Layouts
/-!
# C10 — A request's outcome does not depend on earlier requests or traffic
(single requests of all three kinds; sequences spelled out for `set()`)
-/
namespace C10
open Ubx

/-- **C10 for one `set()`.** On any server object — whatever its parser has queued, half-received or
    filtered before, whatever filter an earlier request left — the result, the transmitted bytes, the
    sequence of back-end calls, the clock and the number of reads equal those of a server whose parser
    was just created, given the same registry, retry settings and receiver behaviour. -/
theorem set_like_fresh (s : Srv) (env : Env) (lg : Log) (req : Req) :
    (s.set env lg req).1 = (({ s with parser := {} } : Srv).set env lg req).1 ∧
    (s.set env lg req).2.2 = (({ s with parser := {} } : Srv).set env lg req).2.2 := by
  have h := setLoop_independent env s.reg s.delay req (s.retries + 1)
    (s.parser.setFilters [ackCid, nakCid]) (({} : Parser).setFilters [ackCid, nakCid]) lg rfl
  simp only [Srv.set]
  exact h

/-- **C10 for one `set_mga()`.** -/
theorem setMga_like_fresh (s : Srv) (env : Env) (lg : Log) (req : Req) :
    (s.setMga env lg req).1 = (({ s with parser := {} } : Srv).setMga env lg req).1 ∧
    (s.setMga env lg req).2.2 = (({ s with parser := {} } : Srv).setMga env lg req).2.2 := by
  have h := mgaLoop_independent env s.reg s.delay req (s.retries + 1)
    (s.parser.setFilter mgaAckCid) (({} : Parser).setFilter mgaAckCid) lg rfl
  simp only [Srv.setMga]
  exact h

/-- **C10 for one `poll()`** — for any registry: the poll (re-)registers its own response class, and
    which classes earlier polls registered under *other* class/ids cannot matter because only the
    request's class/id (and ACK/NAK) pass the filter. -/
theorem poll_like_fresh (s : Srv) (env : Env) (lg : Log) (req : Req) :
    (s.poll env lg req).1 = (({ s with parser := {} } : Srv).poll env lg req).1 ∧
    (s.poll env lg req).2.2 = (({ s with parser := {} } : Srv).poll env lg req).2.2 := by
  have h := pollLoop_independent env (s.reg.register req.cid req.response) s.delay req (s.retries + 1)
    (s.parser.setFilters (if req.cid.cls = CLASS_CFG then [req.cid, ackCid, nakCid] else [req.cid]))
    (({} : Parser).setFilters (if req.cid.cls = CLASS_CFG then [req.cid, ackCid, nakCid] else [req.cid])) lg rfl
  simp only [Srv.poll]
  exact h

/-- `set()` does not change registry or retry settings, so the hypothesis carries over to the next request -/
theorem set_keeps_config (s : Srv) (env : Env) (lg : Log) (req : Req) :
    (s.set env lg req).2.1.reg = s.reg ∧ (s.set env lg req).2.1.retries = s.retries ∧
    (s.set env lg req).2.1.delay = s.delay := ⟨rfl, rfl, rfl⟩

/-- a sequence of `set()` requests on one server object -/
def runSets (env : Env) : Srv → Log → List Req → List (Option RFrame × Log)
  | _, _, [] => []
  | s, lg, r :: rest =>
      let out := s.set env lg r
      (out.1, out.2.2) :: runSets env out.2.1 out.2.2 rest

/-- the same requests, each on a server with a newly created parser, started with the log (clock,
    read index, transmissions so far) at which it starts in the sequence -/
def runSetsFresh (env : Env) : Srv → Log → List Req → List (Option RFrame × Log)
  | _, _, [] => []
  | s, lg, r :: rest =>
      let out := ({ s with parser := {} } : Srv).set env lg r
      (out.1, out.2.2) :: runSetsFresh env s out.2.2 rest

/-- **C10 for sequences.** Every request of a sequence yields what it yields alone on a fresh server
    facing the same receiver behaviour. -/
theorem sets_like_fresh (env : Env) (s : Srv) (lg : Log) (reqs : List Req) :
    runSets env s lg reqs = runSetsFresh env s lg reqs := by
  induction reqs generalizing s lg with
  | nil => rfl
  | cons r rest ih =>
    obtain ⟨h1, h2⟩ := set_like_fresh s env lg r
    simp only [runSets, runSetsFresh]
    rw [h1, h2]
    congr 1
    rw [ih]
    -- the server after the request differs from `s` only in its parser, which the next request ignores
    have hcfg := set_keeps_config s env lg r
    generalize (s.set env lg r).2.1 = s' at hcfg
    generalize (({ s with parser := {} } : Srv).set env lg r).2.2 = lg'
    clear ih h1 h2
    induction rest generalizing s' lg' with
    | nil => rfl
    | cons r2 rest2 ih2 =>
      simp only [runSetsFresh]
      have e : ({ s' with parser := {} } : Srv) = ({ s with parser := {} } : Srv) := by
        cases s'; cases s; simp at hcfg; simp [hcfg]
      rw [e]
      congr 1
      exact ih2 s' hcfg _

end C10

/-! ### against a *newly set-up* server: the registry cannot leak either -/
namespace C10
open Ubx

/-- the answer classes `setup()` registers -/
def answerCids : List Cid := [ackCid, nakCid, mgaAckCid]

/-- the server still builds ACK-ACK, ACK-NAK and MGA-ACK as `setup()` arranged it — whatever response
    classes polls have registered since -/
def SetUp (s : Srv) : Prop := RegAgree answerCids s.reg Registry.base

/-- a newly created and set-up server with the same retry settings -/
def newServer (s : Srv) : Srv := { parser := {}, reg := Registry.base, retries := s.retries, delay := s.delay }

theorem newServer_setUp (s : Srv) : SetUp (newServer s) := fun _ _ _ => rfl

/-- **C10, `set()`**: result and log (transmissions, calls, clock, reads) as on a newly set-up server -/
theorem set_like_new (s : Srv) (hs : SetUp s) (env : Env) (lg : Log) (req : Req) :
    (s.set env lg req).1 = ((newServer s).set env lg req).1 ∧
    (s.set env lg req).2.2 = ((newServer s).set env lg req).2.2 := by
  obtain ⟨h1, h2⟩ := set_like_fresh s env lg req
  have ha : RegAgree [ackCid, nakCid] s.reg Registry.base := hs.mono (by simp [answerCids])
  have e := setLoop_agree env [ackCid, nakCid] s.reg Registry.base ha s.delay req (s.retries + 1)
    (({} : Parser).setFilters [ackCid, nakCid]) lg rfl
  rw [h1, h2]
  simp only [Srv.set, newServer]
  rw [e]
  exact ⟨rfl, rfl⟩

/-- **C10, `set_mga()`** -/
theorem setMga_like_new (s : Srv) (hs : SetUp s) (env : Env) (lg : Log) (req : Req) :
    (s.setMga env lg req).1 = ((newServer s).setMga env lg req).1 ∧
    (s.setMga env lg req).2.2 = ((newServer s).setMga env lg req).2.2 := by
  obtain ⟨h1, h2⟩ := setMga_like_fresh s env lg req
  have ha : RegAgree [mgaAckCid] s.reg Registry.base := hs.mono (by simp [answerCids])
  have e := mgaLoop_agree env [mgaAckCid] s.reg Registry.base ha s.delay req (s.retries + 1)
    (({} : Parser).setFilter mgaAckCid) lg rfl
  rw [h1, h2]
  simp only [Srv.setMga, newServer]
  rw [e]
  exact ⟨rfl, rfl⟩

/-- **C10, `poll()`**: the poll registers its own response class on either server; classes registered
    by earlier polls under other class/ids are never consulted -/
theorem poll_like_new (s : Srv) (hs : SetUp s) (env : Env) (lg : Log) (req : Req) :
    (s.poll env lg req).1 = ((newServer s).poll env lg req).1 ∧
    (s.poll env lg req).2.2 = ((newServer s).poll env lg req).2.2 := by
  obtain ⟨h1, h2⟩ := poll_like_fresh s env lg req
  have ha : RegAgree (if req.cid.cls = CLASS_CFG then [req.cid, ackCid, nakCid] else [req.cid])
      (s.reg.register req.cid req.response) (Registry.base.register req.cid req.response) := by
    refine (hs.register req.cid req.response).mono ?_
    split <;> simp [answerCids]
  have e := pollLoop_agree env _ _ _ ha s.delay req (s.retries + 1)
    (({} : Parser).setFilters (if req.cid.cls = CLASS_CFG then [req.cid, ackCid, nakCid] else [req.cid])) lg rfl
  rw [h1, h2]
  simp only [Srv.poll, newServer]
  rw [e]
  exact ⟨rfl, rfl⟩

/-- a poll whose class/id is not one of the answer classes leaves the server set up -/
theorem poll_keeps_setUp (s : Srv) (hs : SetUp s) (env : Env) (lg : Log) (req : Req) (hreq : req.cid ∉ answerCids) :
    SetUp (s.poll env lg req).2.1 ∧ (s.poll env lg req).2.1.retries = s.retries ∧
    (s.poll env lg req).2.1.delay = s.delay := by
  refine ⟨?_, rfl, rfl⟩
  intro cid hm pl
  have hne : cid ≠ req.cid := fun e => hreq (e ▸ hm)
  show (s.reg.register req.cid req.response).build cid pl = _
  rw [build_register_ne _ _ _ _ hne]
  exact hs cid hm pl

/-- no poll request class of the library has the class/id of an answer class (generated table) -/
theorem poll_classes_are_not_answers :
    ∀ e ∈ Gen.pollClasses, (⟨e.2.1, e.2.2.1⟩ : Cid) ∉ answerCids := by decide

/-- the four request kinds -/
inductive Request
  | poll (r : Req) | set (r : Req) | setMga (r : Req) | fire (r : Req)

def Request.ok : Request → Prop
  | .poll r => r.cid ∉ answerCids
  | _ => True

/-- one request on a server: result, server afterwards, log afterwards -/
def Srv.run (s : Srv) (env : Env) (lg : Log) : Request → Option RFrame × Srv × Log
  | .poll r => s.poll env lg r
  | .set r => s.set env lg r
  | .setMga r => s.setMga env lg r
  | .fire r => (none, s.fireAndForget env lg r)

/-- a sequence of requests on one server object -/
def runSeq (env : Env) : Srv → Log → List Request → List (Option RFrame × Log)
  | _, _, [] => []
  | s, lg, r :: rest =>
      let out := Srv.run s env lg r
      (out.1, out.2.2) :: runSeq env out.2.1 out.2.2 rest

/-- the same requests, each on a newly set-up server, started with the log (clock, read index,
    transmissions so far) at which it starts in the sequence -/
def runSeqNew (env : Env) (s0 : Srv) : Log → List Request → List (Option RFrame × Log)
  | _, [] => []
  | lg, r :: rest =>
      let out := Srv.run (newServer s0) env lg r
      (out.1, out.2.2) :: runSeqNew env s0 out.2.2 rest

theorem run_like_new (s : Srv) (hs : SetUp s) (env : Env) (lg : Log) (r : Request) :
    (Srv.run s env lg r).1 = (Srv.run (newServer s) env lg r).1 ∧
    (Srv.run s env lg r).2.2 = (Srv.run (newServer s) env lg r).2.2 := by
  cases r with
  | poll r => exact poll_like_new s hs env lg r
  | set r => exact set_like_new s hs env lg r
  | setMga r => exact setMga_like_new s hs env lg r
  | fire r => exact ⟨rfl, rfl⟩

theorem run_keeps (s : Srv) (hs : SetUp s) (env : Env) (lg : Log) (r : Request) (hr : r.ok) :
    SetUp (Srv.run s env lg r).2.1 ∧ (Srv.run s env lg r).2.1.retries = s.retries ∧
    (Srv.run s env lg r).2.1.delay = s.delay := by
  cases r with
  | poll r => exact poll_keeps_setUp s hs env lg r hr
  | set r => exact ⟨hs, rfl, rfl⟩
  | setMga r => exact ⟨hs, rfl, rfl⟩
  | fire r => exact ⟨hs, rfl, rfl⟩

/-- **C10 for every sequence of requests of all four kinds.** Each request's result and everything
    it does at the back end (bytes transmitted, calls, reads, clock) are what the same request yields
    on a newly created and set-up server facing the same receiver behaviour. -/
theorem sequence_like_new (env : Env) (s : Srv) (hs : SetUp s) (lg : Log) (reqs : List Request)
    (hok : ∀ r ∈ reqs, r.ok) : runSeq env s lg reqs = runSeqNew env s lg reqs := by
  induction reqs generalizing s lg with
  | nil => rfl
  | cons r rest ih =>
    obtain ⟨h1, h2⟩ := run_like_new s hs env lg r
    obtain ⟨k1, k2, k3⟩ := run_keeps s hs env lg r (hok r (by simp))
    simp only [runSeq, runSeqNew]
    rw [h1, h2]
    congr 1
    rw [ih _ k1 _ (fun x hx => hok x (by simp [hx]))]
    -- `runSeqNew` reads only the retry settings of its server argument
    have hn : newServer (Srv.run s env lg r).2.1 = newServer s := by simp only [newServer, k2, k3]
    generalize (Srv.run s env lg r).2.1 = s' at hn
    generalize (Srv.run (newServer s) env lg r).2.2 = lg'
    clear ih h1 h2 k1 k2 k3
    induction rest generalizing lg' with
    | nil => rfl
    | cons r2 rest2 ih2 =>
      simp only [runSeqNew, hn]
      congr 1
      exact ih2 (fun x hx => hok x (by simp at hx ⊢; rcases hx with h | h; exact Or.inl h; exact Or.inr (Or.inr h))) _

end C10

/-! ### the transport's own buffer: a flush precedes every transmission -/
namespace C10
open Ubx

/-- **call protocol.** The back-end calls a `set()`, `set_mga()` or `poll()` makes are a sequence of
    the blocks `_flush_input · _transmit`, `_receive` and `_recover` — in particular the input buffer
    is flushed immediately before *every* transmission, retransmissions included, so bytes that
    arrived during an earlier request (or attempt) and were never read cannot be taken for an answer
    to this one, given the contract of `_flush_input()`. -/
theorem calls_protocol (s : Srv) (env : Env) (lg : Log) (req : Req) :
    InBlocks lg (s.set env lg req).2.2 ∧ InBlocks lg (s.setMga env lg req).2.2 ∧ InBlocks lg (s.poll env lg req).2.2 :=
  ⟨setLoop_calls env s.reg s.delay req (s.retries + 1) _ lg,
   mgaLoop_calls env s.reg s.delay req (s.retries + 1) _ lg,
   pollLoop_calls env _ s.delay req (s.retries + 1) _ lg⟩

end C10


import UbxModel.Proofs.CfgKeysDichotomy
import UbxModel.Model.ValSetGet
import UbxModel.Proofs.CfgKeysRoundtrip
/-!
# C14 — Malformed configuration data is rejected with ValueError, never mis-decoded

-/
namespace C14
open Ubx Spec
variable [KeyTable]

/-- **C14 (dichotomy).** For every byte string: `ValueError` — and no other exception — or a faithful
    decode of a prefix: the item re-encodes to the consumed bytes with the reserved key bits cleared. -/
theorem unpack_dichotomy (s : List Nat) (hs : Bytes s) :
    CfgItem.unpack s = .error .valueError ∨
    ∃ item n, CfgItem.unpack s = .ok (item, n) ∧ n = 4 + valueBytes item.bits ∧ n ≤ s.length ∧
      validBits item.bits ∧ (item.bits = 1 → item.value = 0 ∨ item.value = 1) ∧
      item.pack = .ok (leBytes 4 (sizeCode item.bits * 2 ^ 28 + item.group.toNat * 2 ^ 16 + item.item.toNat)
                        ++ (s.drop 4).take (valueBytes item.bits)) :=
  Ubx.unpack_dichotomy s hs

/-- too-short data is always rejected with `ValueError` -/
theorem too_short (s : List Nat) (h : s.length < 4) : CfgItem.unpack s = .error .valueError :=
  unpack_too_short s h

/-- out-of-range group or item: `ValueError` -/
theorem pack_rejects_group (c : CfgItem) (h : c.group < 0 ∨ c.group > 255) : c.pack = .error .valueError := by
  simp [CfgItem.pack, h]
theorem pack_rejects_item (c : CfgItem) (h : c.item < 0 ∨ c.item > 4095) : c.pack = .error .valueError := by
  unfold CfgItem.pack
  split
  · rfl
  · simp [h]

/-- an invalid size: `ValueError` -/
theorem pack_rejects_size (c : CfgItem) (h : ¬ validBits c.bits) : c.pack = .error .valueError := by
  unfold CfgItem.pack
  split
  · rfl
  · split
    · rfl
    · rw [buildHeader_invalid _ _ _ h, bind_error]; rfl

/-- the value range of a width and signedness (widths 8, 16, 32, 64; a 1-bit item takes any value, R3) -/
def InRange (bits : Nat) (signed : Bool) (v : Int) : Prop :=
  if signed then -((2 ^ (bits - 1) : Nat) : Int) ≤ v ∧ v < ((2 ^ (bits - 1) : Nat) : Int)
  else 0 ≤ v ∧ v < ((2 ^ bits : Nat) : Int)

/-- **out-of-range values are rejected** with `ValueError` (the `struct.error` is converted), for
    every group, item, multi-bit width and signedness -/
theorem pack_rejects_value (c : CfgItem) (hg : ¬ (c.group < 0 ∨ c.group > 0xFF)) (hi : ¬ (c.item < 0 ∨ c.item > 0xFFF))
    (hb : c.bits = 8 ∨ c.bits = 16 ∨ c.bits = 32 ∨ c.bits = 64) (hr : ¬ InRange c.bits c.signed c.value) :
    c.pack = .error .valueError := by
  have hv : validBits c.bits := Or.inr hb
  obtain ⟨e, -⟩ := pack_eq c hg hi hv _ rfl
  rw [e]
  have hpv : c.packValue = .error .structError := by
    unfold CfgItem.packValue
    rcases hb with h | h | h | h <;> simp only [h] at hr ⊢ <;> cases hs : c.signed <;>
      simp only [hs, InRange, Bool.false_eq_true, if_false, if_true] at hr ⊢ <;>
      first
        | (simp only [show ¬ ((8 : Nat) = 1) by decide, show ¬ ((16 : Nat) = 1) by decide, show ¬ ((32 : Nat) = 1) by decide,
            show ¬ ((64 : Nat) = 1) by decide, show ¬ ((16 : Nat) = 8) by decide, show ¬ ((32 : Nat) = 8) by decide,
            show ¬ ((64 : Nat) = 8) by decide, show ¬ ((32 : Nat) = 16) by decide, show ¬ ((64 : Nat) = 16) by decide,
            show ¬ ((64 : Nat) = 32) by decide, if_false, if_true]
           first | exact if_neg hr | (unfold packU; exact if_neg hr) | (unfold packI; exact if_neg hr))
  rw [hpv, bind_error]
  rfl

end C14

namespace C14
open Ubx Spec
variable [KeyTable]

/-- **VALSET payload**: the 4-byte header `00 01 00 00` followed by the items' encodings in the order given -/
theorem valset_payload (items : List CfgItem) (bs : List Nat) (h : valsetPayload items = .ok bs) :
    ∃ parts : List (List Nat), bs = [0, 1, 0, 0] ++ parts.flatten ∧ parts.length = items.length ∧
      ∀ i (hi : i < items.length) (hp : i < parts.length), items[i].pack = .ok parts[i] := by
  have key : ∀ (its : List CfgItem) (b : List Nat), packItems its = .ok b →
      ∃ parts : List (List Nat), b = parts.flatten ∧ parts.length = its.length ∧
        ∀ i (hi : i < its.length) (hp : i < parts.length), its[i].pack = .ok parts[i] := by
    intro its
    induction its with
    | nil => intro b hb; simp only [packItems, Except.ok.injEq] at hb; subst hb; exact ⟨[], rfl, rfl, fun i hi => absurd hi (by simp)⟩
    | cons c rest ih =>
      intro b hb
      simp only [packItems] at hb
      cases hc : c.pack with
      | error e => rw [hc, bind_error] at hb; cases hb
      | ok b1 =>
        rw [hc, bind_ok] at hb
        cases hr : packItems rest with
        | error e => rw [hr, bind_error] at hb; cases hb
        | ok more =>
          rw [hr, bind_ok] at hb
          simp only [pure, Except.pure, Except.ok.injEq] at hb; subst hb
          obtain ⟨parts, p1, p2, p3⟩ := ih more hr
          refine ⟨b1 :: parts, by simp [p1], by simp [p2], fun i hi hp => ?_⟩
          cases i with
          | zero => simpa using hc
          | succ j => simpa using p3 j (by simpa using hi) (by simpa using hp)
  simp only [valsetPayload] at h
  cases hb : packItems items with
  | error e => rw [hb, bind_error] at h; cases h
  | ok b =>
    rw [hb, bind_ok] at h
    simp only [pure, Except.pure, Except.ok.injEq] at h; subst h
    obtain ⟨parts, p1, p2, p3⟩ := key items b hb
    exact ⟨parts, by rw [p1], p2, p3⟩

/-- a VALSET with an item that `pack` rejects is rejected with the same `ValueError` -/
theorem valset_rejects (items : List CfgItem) (c : CfgItem) (pre post : List CfgItem) (h : items = pre ++ c :: post)
    (hpre : ∀ x ∈ pre, ∃ b, x.pack = .ok b) (hc : c.pack = .error .valueError) :
    valsetPayload items = .error .valueError := by
  subst h
  have : packItems (pre ++ c :: post) = .error .valueError := by
    induction pre with
    | nil => simp only [List.nil_append, packItems, hc, bind_error]
    | cons x xs ih =>
      obtain ⟨b, hb⟩ := hpre x (by simp)
      simp only [List.cons_append, packItems, hb, bind_ok]
      rw [ih (fun y hy => hpre y (by simp [hy])), bind_error]
  simp only [valsetPayload, this, bind_error]

/-- **VALGET poll**: the 4-byte header `00 00 00 00` followed by the requested keys, little-endian, in order -/
theorem valget_poll_payload (keys : List Nat) (hk : ∀ k ∈ keys, k < 2 ^ 32) :
    valgetPollPayload (keys.map Int.ofNat) = .ok ([0, 0, 0, 0] ++ (keys.map (leBytes 4)).flatten) := by
  have : (keys.map Int.ofNat).mapM (packU 4) = .ok (keys.map (leBytes 4)) := by
    induction keys with
    | nil => rfl
    | cons k rest ih =>
      have hk0 : k < 2 ^ 32 := hk k (by simp)
      have hp : packU 4 (k : Int) = .ok (leBytes 4 k) := by
        have : (0 : Int) ≤ (k : Int) ∧ (k : Int) < ((2 ^ (8 * 4) : Nat) : Int) :=
          ⟨by omega, Int.ofNat_lt.mpr (by simpa using hk0)⟩
        simp only [packU, this, and_self, if_true, Int.toNat_natCast]
      have hp' : packU 4 (Int.ofNat k) = .ok (leBytes 4 k) := hp
      rw [List.map_cons, List.mapM_cons, hp', bind_ok, ih (fun x hx => hk x (by simp [hx])), bind_ok]
      rfl
  simp only [valgetPollPayload, this, bind_ok]
  rfl

/-- **VALGET response, one step**: with at least four bytes left, the next entry is what `unpack` makes
    of the head of the remaining payload, and decoding continues right after the bytes it consumed —
    so entries are in payload order, one per pair -/
theorem valget_step (fuel : Nat) (data : List Nat) (h4 : ¬ data.length < 4) (c : CfgItem) (n : Nat)
    (hu : CfgItem.unpack data = .ok (c, n)) :
    valgetItems (fuel + 1) data = (valgetItems fuel (data.drop n)).map (c :: ·) := by
  simp only [valgetItems, if_neg h4, hu, bind_ok]
  cases valgetItems fuel (data.drop n) <;> rfl

/-- fewer than four bytes left: decoding stops (1–3 trailing bytes are not a pair) -/
theorem valget_stop (fuel : Nat) (data : List Nat) (h4 : data.length < 4) : valgetItems (fuel + 1) data = .ok [] := by
  simp [valgetItems, h4]

/-- **VALGET response, dichotomy**: a list of entries, or `ValueError` — never another exception -/
theorem valget_dichotomy (fuel : Nat) (data : List Nat) (hb : Bytes data) :
    valgetItems fuel data = .error .valueError ∨ ∃ items, valgetItems fuel data = .ok items := by
  induction fuel generalizing data with
  | zero => exact Or.inr ⟨[], rfl⟩
  | succ fuel ih =>
    by_cases h4 : data.length < 4
    · exact Or.inr ⟨[], valget_stop fuel data h4⟩
    · rcases Ubx.unpack_dichotomy data hb with he | ⟨c, n, hu, -⟩
      · left; simp only [valgetItems, if_neg h4, he, bind_error]
      · rw [valget_step fuel data h4 c n hu]
        rcases ih (data.drop n) (fun b hbm => hb b (List.mem_of_mem_drop hbm)) with h | ⟨items, h⟩
        · left; rw [h]; rfl
        · right; exact ⟨c :: items, by rw [h]; rfl⟩

end C14

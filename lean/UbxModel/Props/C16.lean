import UbxModel.Proofs.Nmea
/-!
# C16 — The NMEA parser counts exactly the sentences with a valid checksum
-/
namespace C16
open Nmea Spec.Nmea

/-- **C16.** For every byte string and every way of splitting it into chunks, a new parser's
    `frames_rx` equals the number of positions at which the specification sees a valid sentence:
    `$`, a body without `$` and `*`, `*`, two hex digits (either case) equal to the XOR of the body. -/
theorem counts_exactly (s : List Nat) (chunks : List (List Nat)) (hchunks : chunks.flatten = s) :
    (chunks.foldl P.process P.fresh).framesRx = count s := by
  rw [P.process_chunks, hchunks]
  exact count_fresh s

/-- from any state: what was counted is kept; the sentence in progress contributes iff the
    continuation completes it validly; every later valid position counts -/
theorem counts_from (p : P) (s : List Nat) :
    (p.process s).framesRx = p.framesRx + pend p s + count s := count_general p s

/-- a position that is not a valid sentence start contributes nothing and cannot prevent later
    positions from counting: the count is additive over positions -/
theorem count_additive (c : Nat) (rest : List Nat) :
    count (c :: rest) = (if c = 36 ∧ completes 0 rest then 1 else 0) + count rest := rfl

/-- the hex digits the code accepts are exactly `0-9`, `a-f`, `A-F`, with their usual values -/
theorem hex_digits (c : Nat) : toBin c = hexVal c := toBin_eq c

/-- non-vacuity: `$GP*17` is valid (`G xor P = 0x17`), lower-case digits are accepted, a wrong
    checksum, a missing one, a `$` inside a body and binary noise in between count as specified -/
example : count ([36, 71, 80, 42, 49, 55] ++ [0xB5, 0x62, 200] ++ [36, 71, 36, 71, 80, 42, 49, 55, 13, 10]
    ++ [36, 71, 80, 42, 49, 56] ++ [36, 74, 42, 52, 97]) = 3 := by decide
example : (P.fresh.process ([36, 71, 80, 42, 49, 55] ++ [0xB5, 0x62, 200] ++ [36, 71, 36, 71, 80, 42, 49, 55, 13, 10]
    ++ [36, 71, 80, 42, 49, 56] ++ [36, 74, 42, 52, 97])).framesRx = 3 := by decide

end C16

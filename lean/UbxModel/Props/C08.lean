import UbxModel.Proofs.FieldsRoundtrip2
import UbxModel.Proofs.LayoutBlocks
import UbxModel.Gen.Layouts
import UbxModel.Proofs.ValgetRoundtrip
import UbxModel.Proofs.Utf8
/-!
# C08 — Encoding inverts decoding; read-modify-write changes only the edited field

The three laws are proved once, generically over field tables (`Proofs/FieldsRoundtrip*.lean`);
here they are instantiated: every table generated from the code — and the table of every block count
of the repeated-block messages — is well-formed, so the laws apply to every supported class.
-/
namespace C08
open Ubx Spec
variable [KeyTable]

/-- decidable form of well-formedness -/
def wfb (t : Table) : Bool := t.all fun x => match x.2 with | .sint w => decide (0 < w) | _ => true

theorem wf_of_wfb (t : Table) (h : wfb t = true) : t.wf := by
  intro x hx w hk
  simp only [wfb, List.all_eq_true] at h
  have := h x hx
  rw [hk] at this
  simpa using this

/-- every generated fixed table is well-formed (signed items have at least one byte) -/
theorem generated_tables_wf :
    Gen.UbxAckAck.wf ∧ Gen.UbxAckNak.wf ∧ Gen.UbxCfgCfgAction.wf ∧ Gen.UbxCfgEsfAlg.wf ∧ Gen.UbxCfgEsflaSet.wf ∧
    Gen.UbxCfgNav5.wf ∧ Gen.UbxCfgNavx5.wf ∧ Gen.UbxCfgNmea.wf ∧ Gen.UbxCfgPrtUart.wf ∧ Gen.UbxCfgPrtPoll.wf ∧
    Gen.UbxCfgRate.wf ∧ Gen.UbxCfgRstAction.wf ∧ Gen.UbxCfgTp5.wf ∧ Gen.UbxCfgTp5Poll.wf ∧ Gen.UbxEsfAlg.wf ∧
    Gen.UbxEsfMeas.wf ∧ Gen.UbxMgaAckData0.wf ∧ Gen.UbxMgaIniTimeUtc.wf ∧ Gen.UbxNavStatus.wf ∧ Gen.UbxUpdSos.wf ∧
    Gen.UbxUpdSosAction.wf := by
  refine ⟨?_, ?_, ?_, ?_, ?_, ?_, ?_, ?_, ?_, ?_, ?_, ?_, ?_, ?_, ?_, ?_, ?_, ?_, ?_, ?_, ?_⟩ <;>
    exact wf_of_wfb _ (by decide)

/-- a table of repeated blocks is well-formed if every block is -/
theorem blocks_wf (hdr : Table) (blk : Nat → Table) (h1 : hdr.wf) (h2 : ∀ i, (blk i).wf) (n : Nat) :
    (hdr ++ blocks blk n).wf := by
  intro x hx w hk
  simp only [List.mem_append, blocks, List.mem_flatMap, List.mem_range] at hx
  rcases hx with hx | ⟨i, -, hx⟩
  · exact h1 x hx w hk
  · exact h2 i x hx w hk

theorem gnss_wf (n : Nat) : (Gen.UbxCfgGnss_header ++ blocks Gen.UbxCfgGnss_block n).wf :=
  blocks_wf _ _ (wf_of_wfb _ (by decide))
    (fun i x hx w hk => by simp [Gen.UbxCfgGnss_block] at hx; rcases hx with rfl | rfl | rfl | rfl | rfl <;> simp at hk) n
theorem esfla_wf (n : Nat) : (Gen.UbxCfgEsfla_header ++ blocks Gen.UbxCfgEsfla_block n).wf :=
  blocks_wf _ _ (wf_of_wfb _ (by decide))
    (fun i x hx w hk => by
      simp [Gen.UbxCfgEsfla_block] at hx
      rcases hx with rfl | rfl | rfl | rfl | rfl <;> simp at hk <;> omega) n
theorem esfStatus_wf (n : Nat) : (Gen.UbxEsfStatus_header ++ blocks Gen.UbxEsfStatus_block n).wf :=
  blocks_wf _ _ (wf_of_wfb _ (by decide))
    (fun i x hx w hk => by simp [Gen.UbxEsfStatus_block] at hx; rcases hx with rfl | rfl | rfl | rfl <;> simp at hk) n
theorem monVer_wf (n : Nat) : (Gen.UbxMonVer_header ++ blocks Gen.UbxMonVer_block n).wf :=
  blocks_wf _ _ (wf_of_wfb _ (by decide))
    (fun i x hx w hk => by simp [Gen.UbxMonVer_block] at hx; subst hx; simp at hk) n

/-- **decode then encode** reproduces a payload of (at least) the table's size byte for byte, except
    that reserved ranges come out as zero (and bytes beyond the table are dropped) -/
theorem encode_after_decode (t : Table) (hwf : t.wf) (pl : List Nat) (hb : Bytes pl) (hl : t.size ≤ pl.length)
    (vs : List Val) (rem : List Nat) (h : t.decode pl = .ok (vs, rem)) :
    t.encode vs = .ok (t.zeroReserved pl) := encode_decode t hwf pl hb hl vs rem h

/-- **encode then decode** returns the assigned values -/
theorem decode_after_encode (t : Table) (hwf : t.wf) (vs : List Val) (bs : List Nat)
    (h : t.encode vs = .ok bs) (hc : t.Canon vs) : t.decode bs = .ok (vs, []) ∧ bs.length = t.size := by
  have := decode_encode t hwf vs bs [] h hc
  simpa using this

/-- **read-modify-write** changes only the edited field's bytes -/
theorem edit_is_local (t : Table) (vs : List Val) (j : Nat) (v' : Val) (bs bs' : List Nat)
    (h : t.encode vs = .ok bs) (h' : t.encode (vs.set j v') = .ok bs') (hj : j < t.length) (hl : vs.length = t.length) :
    ∃ k piece, (t[j]?).map (·.2) = some k ∧ k.pack v' = .ok piece ∧
      bs'.take (t.offsetOf j) = bs.take (t.offsetOf j) ∧
      bs'.drop (t.offsetOf j + k.width) = bs.drop (t.offsetOf j + k.width) ∧
      (bs'.drop (t.offsetOf j)).take k.width = piece := rmw_local t vs j v' bs bs' h h' hj hl

/-- non-vacuity: CFG-RATE, `measRate := 100` changes bytes 0..1 only -/
example :
    (match Gen.UbxCfgRate.decode [0xE8, 0x03, 0x01, 0x00, 0x01, 0x00] with | .ok (vs, _) => vs | .error _ => [])
      = [.int 1000, .int 1, .int 1] ∧
    (match Gen.UbxCfgRate.encode [.int 100, .int 1, .int 1] with | .ok bs => bs | .error _ => [])
      = [0x64, 0x00, 0x01, 0x00, 0x01, 0x00] := by decide

/-! ### variable-length messages whose fields are configuration items (VALGET responses) -/

/-- **decode then encode of a VALGET response**: the key/value area is reproduced pair by pair — the key id with its
    reserved bits cleared (they are the "reserved bytes" of this message), the value bytes exactly as received; a
    tail of 1–3 bytes, which is no pair, is dropped (R4) -/
theorem valget_encode_after_decode (payload : List Nat) (hb : Bytes payload) (v l p : Int) (items : List CfgItem)
    (h : valgetDecode payload = .ok (v, l, p, items)) :
    packItems items = .ok (valgetCanon payload.length (payload.drop 4)) := by
  unfold valgetDecode at h
  cases h1 : unpackU 1 payload with
  | error e => rw [h1, bind_error] at h; cases h
  | ok v' =>
    rw [h1, bind_ok] at h
    cases h2 : unpackU 1 (payload.drop 1) with
    | error e => rw [h2, bind_error] at h; cases h
    | ok l' =>
      rw [h2, bind_ok] at h
      cases h3 : unpackU 2 (payload.drop 2) with
      | error e => rw [h3, bind_error] at h; cases h
      | ok p' =>
        rw [h3, bind_ok] at h
        cases h4 : valgetItems payload.length (payload.drop 4) with
        | error e => rw [h4, bind_error] at h; cases h
        | ok its =>
          rw [h4, bind_ok] at h
          have hi : its = items := by injection h with h; injection h with _ h; injection h with _ h; injection h with _ h
          subst hi
          exact valget_reencode _ _ (fun b hbm => hb b (List.mem_of_mem_drop hbm)) its h4

/-- non-vacuity: CFG-RATE-MEAS = 1000 (16 bit) with reserved key bits set, then a 1-bit item, then two stray bytes -/
example : @valgetCanon publishedTable 20 [0x01, 0xF0, 0x21, 0xB0, 0xE8, 0x03, 0x1F, 0x00, 0x31, 0x10, 0x01, 0xAA, 0xBB]
    = [0x01, 0x00, 0x21, 0x30, 0xE8, 0x03, 0x1F, 0x00, 0x31, 0x10, 0x01] := by decide +kernel

/-- …and with a table in which an application registered a signed 32-bit key of its own (0x40050006): the same law -/
example : @valgetCanon ⟨(0x40050006, "CFG-TP-USER_DELAY_TP1", true) :: Gen.publishedKeys⟩ 20 [0x06, 0x00, 0x05, 0x40, 0xCE, 0xFF, 0xFF, 0xFF, 0x07]
    = [0x06, 0x00, 0x05, 0x40, 0xCE, 0xFF, 0xFF, 0xFF] := by decide +kernel

/-- **text fields, what decodes.** The bytes `CH.unpack` accepts are exactly the UTF-8 encodings (RFC 3629, `Spec/Utf8.lean`)
    of sequences of Unicode scalar values - no over-long forms, no surrogates, nothing above U+10FFFF, no cut sequence. -/
theorem text_accepts_exactly_utf8 (bs : List Nat) :
    validUtf8 bs = true ↔ ∃ cs, (∀ c ∈ cs, isScalar c) ∧ encodeText cs = bs :=
  ⟨valid_is_encoded bs, fun ⟨cs, h, e⟩ => e ▸ valid_encodeText cs h⟩

/-- **text fields, one text per byte string.** Two texts with the same encoding are the same text: the bytes of a text
    field and the `str` it decodes to determine each other (which is what lets the model keep a `str` as its bytes). -/
theorem text_unique (cs cs' : List Nat) (h : ∀ c ∈ cs, isScalar c) (h' : ∀ c ∈ cs', isScalar c)
    (he : encodeText cs = encodeText cs') : cs = cs' := encodeText_inj cs cs' h h' he

/-- **one text item, decode then encode.** What `CH(n).unpack` returns is a text (the encoding of scalar values, the
    field's bytes without the trailing NULs), and `pack()` of it gives the field's `n` bytes back - measured in bytes,
    whatever the number of characters. -/
theorem text_item_roundtrip (n : Nat) (data : List Nat) (v : Val) (k : Nat)
    (h : (Kind.text n).unpack data = .ok (v, k)) :
    k = n ∧ (∃ cs, (∀ c ∈ cs, isScalar c) ∧ v = .str (encodeText cs) ∧ encodeText cs = stripNuls (data.take n)) ∧
    (Kind.text n).pack v = .ok (data.take n) := by
  simp only [Kind.unpack] at h
  split at h
  · cases h
  · rename_i hl
    split at h
    · cases h
    · rename_i hv
      simp only [Except.ok.injEq, Prod.mk.injEq] at h
      obtain ⟨rfl, rfl⟩ := h
      have hv' : validUtf8 (data.take n) = true := by simpa using hv
      obtain ⟨cs, hs, he⟩ := valid_is_encoded _ (validUtf8_stripNuls _ hv')
      refine ⟨rfl, ⟨cs, hs, by rw [he], he⟩, ?_⟩
      obtain ⟨p1, p2⟩ := stripNuls_pad (data.take n)
      have hlen : (data.take n).length = n := by simp; omega
      rw [hlen] at p1 p2
      simp only [Kind.pack]
      have : ¬ (stripNuls (data.take n)).length > n := by omega
      rw [if_neg this, p1]

/-- the premises are satisfiable on text that is not ASCII: "µ°" then padding in a six-byte field, whatever follows -/
example : (Kind.text 6).unpack [0xC2, 0xB5, 0xC2, 0xB0, 0, 0, 7] = .ok (.str [0xC2, 0xB5, 0xC2, 0xB0], 6) ∧
    encodeText [0xB5, 0xB0] = [0xC2, 0xB5, 0xC2, 0xB0] := by
  refine ⟨?_, by decide⟩
  simp [Kind.unpack, validUtf8_cons, validUtf8, isCont, stripNuls]

/-- text that fits in characters but not in bytes is refused -/
example : (Kind.text 2).pack (.str (encodeText [0xE9, 0xE9])) = .error .valueError := by
  simp [Kind.pack, encodeText, encodeScalar]

end C08

import UbxModel.Proofs.Checksum
/-!
# C15 — The checksum is the 8-bit Fletcher algorithm for every byte sequence

Property theorems only; helper lemmas are in `Proofs/Checksum.lean`.
-/
namespace C15
open Ubx Spec

/-- For every sequence of bytes, starting from the state after creation (`Ck.zero`), the object
    reports CK_A = Σ bytes mod 256 and CK_B = Σ of the successive CK_A values mod 256. -/
theorem value_is_fletcher (s : List Nat) : (Ck.zero.addAll s).value = (ckA s, ckB s) := by
  have := fletcher_closed s
  unfold fletcher at this
  simp [Ck.value, this]

/-- … and the same after `reset()` from any state whatsoever: the result depends only on the bytes. -/
theorem depends_only_on_bytes (c c' : Ck) (s : List Nat) :
    (c.reset.addAll s).value = (c'.reset.addAll s).value := rfl

theorem reset_then_value (c : Ck) (s : List Nat) : (c.reset.addAll s).value = (ckA s, ckB s) :=
  value_is_fletcher s

/-- Both values stay within 0..255 after every `add`, from any state and for any argument. -/
theorem add_stays_in_range (c : Ck) (x : Nat) : (c.add x).a < 256 ∧ (c.add x).b < 256 :=
  add_in_range c x

/-- … hence in every state reachable from creation or reset. -/
theorem reachable_in_range (s : List Nat) : (Ck.zero.addAll s).a < 256 ∧ (Ck.zero.addAll s).b < 256 :=
  addAll_in_range Ck.zero s (by decide)

/-- `matches()` is true for exactly the pair `value()` reports. -/
theorem matches_iff (c : Ck) (a b : Nat) : c.matches a b = true ↔ (a, b) = c.value := by
  simp [Ck.matches, Ck.value]
  constructor
  · rintro ⟨h1, h2⟩; exact ⟨h1.symm, h2.symm⟩
  · rintro ⟨h1, h2⟩; exact ⟨h1.symm, h2.symm⟩

/-- the masks of the code are reductions modulo 256 -/
theorem mask_is_mod (n : Nat) : n &&& 0xFF = n % 256 := and_255 n

/-- non-vacuity / sanity: the checksum of the ACK-ACK body `05 01 02 00 06 01` is `0F 38`. -/
example : (Ck.zero.addAll [0x05, 0x01, 0x02, 0x00, 0x06, 0x01]).value = (0x0F, 0x38) := by decide
example : (ckA [0x05, 0x01, 0x02, 0x00, 0x06, 0x01], ckB [0x05, 0x01, 0x02, 0x00, 0x06, 0x01]) = (0x0F, 0x38) := by
  decide

end C15

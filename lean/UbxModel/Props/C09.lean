import UbxModel.Proofs.ParserRestart
import UbxModel.Proofs.Nmea
/-!
# C09 — Parsing is independent of chunking; restart() drops exactly the partial frame
-/
namespace C09
open Ubx

/-- **C09 (UBX, chunking).** However a byte string is split across `process()` calls — empty and
    1-byte chunks included — the parser ends in the same state: same packets in the same order,
    same `frames_rx`, same everything. -/
theorem ubx_chunking (p : Parser) (chunks chunks' : List (List Nat)) (h : chunks.flatten = chunks'.flatten) :
    chunks.foldl Parser.process p = chunks'.foldl Parser.process p := by
  rw [Parser.process_chunks, Parser.process_chunks, h]

/-- **C09 (NMEA, chunking).** -/
theorem nmea_chunking (p : Nmea.P) (chunks chunks' : List (List Nat)) (h : chunks.flatten = chunks'.flatten) :
    chunks.foldl Nmea.P.process p = chunks'.foldl Nmea.P.process p := by
  rw [Nmea.P.process_chunks, Nmea.P.process_chunks, h]

/-- **C09 (UBX, restart).** After `restart()` at any point — in any state, reachable or not — the
    parser behaves on all further input exactly like a newly created parser with the same filter:
    it queues the same packets, behind those already queued, and counts the same frames, on top of
    the count already reached. -/
theorem ubx_restart (p : Parser) (s : List Nat) :
    let r := p.restart.process s
    let n := (Parser.fresh p.filter).process s
    r.queue = p.queue ++ n.queue ∧ r.framesRx = p.framesRx + n.framesRx ∧ r.st = n.st ∧ r.filter = n.filter :=
  restart_equiv p s

/-- restart keeps what was queued and counted, and the filter -/
theorem ubx_restart_keeps (p : Parser) :
    p.restart.queue = p.queue ∧ p.restart.framesRx = p.framesRx ∧ p.restart.filter = p.filter := ⟨rfl, rfl, rfl⟩

/-- **C09 (NMEA, restart).** -/
theorem nmea_restart (p : Nmea.P) (s : List Nat) :
    (p.restart.process s).framesRx = p.framesRx + (Nmea.P.fresh.process s).framesRx ∧
    (p.restart.process s).st = (Nmea.P.fresh.process s).st := Nmea.restart_equiv p s

/-- non-vacuity: restart in the middle of a payload; the rest of the old frame is garbage for a new
    parser, the next frame is delivered -/
example :
    let ack := [0xB5, 0x62, 5, 1, 2, 0, 6, 1, 0x0F, 0x38]
    let p := ((Parser.fresh (some [⟨5, 1⟩])).process (ack ++ ack.take 7)).restart.process (ack.drop 7 ++ ack)
    p.queue = [.data ⟨5, 1⟩ [6, 1], .data ⟨5, 1⟩ [6, 1]] ∧ p.framesRx = 2 := by decide

end C09

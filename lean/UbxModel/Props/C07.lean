import UbxModel.Proofs.LayoutBlocks
import UbxModel.Gen.Layouts
import UbxModel.Props.C14
/-!
# C07 — Decoded fields carry the values prescribed by the u-blox message layouts

For every class: the table *generated from the code* assigns every named field exactly the offset,
width and type of the *hand-transcribed* specification (`decide` on the two concrete tables), has
the prescribed total size, and (`decode_layout`, generic) decoding therefore yields, for every
payload, the little-endian number / text found there.
-/
namespace C07
open Ubx Spec
variable [KeyTable]

/-- one obligation per fixed-layout class: layout equals the specification, total size as prescribed -/
abbrev Agrees (t : Table) (spec : Layout) (size : Nat) : Prop := t.layout 0 = spec ∧ t.size = size

theorem ackAck : Agrees Gen.UbxAckAck Spec.UbxAckAck 2 := by decide
theorem ackNak : Agrees Gen.UbxAckNak Spec.UbxAckNak 2 := by decide
theorem cfgCfg : Agrees Gen.UbxCfgCfgAction Spec.UbxCfgCfgAction 12 := by decide
theorem cfgEsfAlg : Agrees Gen.UbxCfgEsfAlg Spec.UbxCfgEsfAlg 12 := by decide
theorem cfgEsflaSet : Agrees Gen.UbxCfgEsflaSet Spec.UbxCfgEsflaSet 12 := by decide
theorem cfgNav5 : Agrees Gen.UbxCfgNav5 Spec.UbxCfgNav5 36 := by decide
theorem cfgNavx5 : Agrees Gen.UbxCfgNavx5 Spec.UbxCfgNavx5 44 := by decide
theorem cfgNmea : Agrees Gen.UbxCfgNmea Spec.UbxCfgNmea 20 := by decide
theorem cfgPrtUart : Agrees Gen.UbxCfgPrtUart Spec.UbxCfgPrtUart 20 := by decide
theorem cfgPrtPoll : Agrees Gen.UbxCfgPrtPoll Spec.UbxCfgPrtPoll 1 := by decide
theorem cfgRate : Agrees Gen.UbxCfgRate Spec.UbxCfgRate 6 := by decide
theorem cfgRst : Agrees Gen.UbxCfgRstAction Spec.UbxCfgRstAction 4 := by decide
theorem cfgTp5 : Agrees Gen.UbxCfgTp5 Spec.UbxCfgTp5 32 := by decide
theorem cfgTp5Poll : Agrees Gen.UbxCfgTp5Poll Spec.UbxCfgTp5Poll 1 := by decide
theorem esfAlg : Agrees Gen.UbxEsfAlg Spec.UbxEsfAlg 16 := by decide
theorem esfMeas : Agrees Gen.UbxEsfMeas Spec.UbxEsfMeas 12 := by decide
theorem mgaAckData0 : Agrees Gen.UbxMgaAckData0 Spec.UbxMgaAckData0 8 := by decide
theorem mgaIniTimeUtc : Agrees Gen.UbxMgaIniTimeUtc Spec.UbxMgaIniTimeUtc 24 := by decide
theorem navStatus : Agrees Gen.UbxNavStatus Spec.UbxNavStatus 16 := by decide
theorem updSos : Agrees Gen.UbxUpdSos Spec.UbxUpdSos 8 := by decide
theorem updSosAction : Agrees Gen.UbxUpdSosAction Spec.UbxUpdSosAction 4 := by decide

/-- **C07 (fixed layouts).** If a class's table agrees with the specification, then for every payload
    that decodes, every field the specification names holds the value found at its prescribed offset,
    width, signedness and little-endian byte order. -/
theorem decoded_as_prescribed (t : Table) (spec : Layout) (size : Nat) (hag : Agrees t spec size)
    (pl : List Nat) (vs : List Val) (rem : List Nat) (h : t.decode pl = .ok (vs, rem))
    (name : String) (off w : Nat) (ty : Ty) (hm : (name, off, w, ty) ∈ spec) :
    ∃ (i : Nat) (k : Kind), t[i]? = some (name, k) ∧ vs[i]? = some (specValue pl off w ty) :=
  decode_layout t pl vs rem h name off w ty (by rw [hag.1]; exact hm)

end C07

namespace C07
open Ubx Spec
variable [KeyTable]

/-! ### messages with repeated blocks — every block count -/

/-- UBX-CFG-GNSS with `n` configuration blocks: block `i` at `4 + 8·i`, indexed in payload order -/
theorem cfgGnss (n : Nat) :
    (Gen.UbxCfgGnss_header ++ blocks Gen.UbxCfgGnss_block n).layout 0 =
      Spec.UbxCfgGnss_header ++ (List.range n).flatMap Spec.UbxCfgGnss_block ∧
    (Gen.UbxCfgGnss_header ++ blocks Gen.UbxCfgGnss_block n).size = 4 + 8 * n :=
  dynamic_layout _ _ _ _ 4 8 (by decide) (by decide) (fun i => by simp [Gen.UbxCfgGnss_block, Table.size, Kind.width])
    (fun i => by simp [Gen.UbxCfgGnss_block, Spec.UbxCfgGnss_block, Table.layout, Nat.add_assoc]) n

/-- UBX-CFG-ESFLA with `n` lever arms: block `i` at `4 + 8·i` -/
theorem cfgEsfla (n : Nat) :
    (Gen.UbxCfgEsfla_header ++ blocks Gen.UbxCfgEsfla_block n).layout 0 =
      Spec.UbxCfgEsfla_header ++ (List.range n).flatMap Spec.UbxCfgEsfla_block ∧
    (Gen.UbxCfgEsfla_header ++ blocks Gen.UbxCfgEsfla_block n).size = 4 + 8 * n :=
  dynamic_layout _ _ _ _ 4 8 (by decide) (by decide) (fun i => by simp [Gen.UbxCfgEsfla_block, Table.size, Kind.width])
    (fun i => by simp [Gen.UbxCfgEsfla_block, Spec.UbxCfgEsfla_block, Table.layout, Nat.add_assoc]) n

/-- UBX-ESF-STATUS with `n` sensors: block `i` at `16 + 4·i` -/
theorem esfStatus (n : Nat) :
    (Gen.UbxEsfStatus_header ++ blocks Gen.UbxEsfStatus_block n).layout 0 =
      Spec.UbxEsfStatus_header ++ (List.range n).flatMap Spec.UbxEsfStatus_block ∧
    (Gen.UbxEsfStatus_header ++ blocks Gen.UbxEsfStatus_block n).size = 16 + 4 * n :=
  dynamic_layout _ _ _ _ 16 4 (by decide) (by decide) (fun i => by simp [Gen.UbxEsfStatus_block, Table.size, Kind.width])
    (fun i => by simp [Gen.UbxEsfStatus_block, Spec.UbxEsfStatus_block, Table.layout, Nat.add_assoc]) n

/-- UBX-MON-VER with `n` extension strings: extension `i` at `40 + 30·i` -/
theorem monVer (n : Nat) :
    (Gen.UbxMonVer_header ++ blocks Gen.UbxMonVer_block n).layout 0 =
      Spec.UbxMonVer_header ++ (List.range n).flatMap Spec.UbxMonVer_block ∧
    (Gen.UbxMonVer_header ++ blocks Gen.UbxMonVer_block n).size = 40 + 30 * n :=
  dynamic_layout _ _ _ _ 40 30 (by decide) (by decide) (fun i => by simp [Gen.UbxMonVer_block, Table.size, Kind.width])
    (fun i => by simp [Gen.UbxMonVer_block, Spec.UbxMonVer_block, Table.layout]) n

end C07

/-! ### configuration key/value pairs (UBX-CFG-VALGET) -/
namespace C07
open Ubx Spec
variable [KeyTable]

/-- an item as it can appear on the wire: a valid width, a 1-bit value that is 0 or 1, and the
    signedness the key table gives its key id -/
def Canonical (c : CfgItem) : Prop :=
  validBits c.bits ∧ (c.bits = 1 → c.value = 0 ∨ c.value = 1) ∧
  c.signed = keySigned (sizeCode c.bits * 2 ^ 28 + c.group.toNat * 2 ^ 16 + c.item.toNat)

/-- **VALGET entries, every number of pairs.** A payload that is the concatenation of the encodings of
    `items` decodes to exactly these items — one entry per pair, in payload order, each with the group,
    item, width and value found at its place (the value's byte order and signedness are C13's
    round-trip). -/
theorem valget_entries (items : List CfgItem) (hc : ∀ c ∈ items, Canonical c)
    (bss : List (List Nat)) (hp : items.map CfgItem.pack = bss.map Except.ok) (fuel : Nat)
    (hf : bss.flatten.length ≤ fuel) : valgetItems fuel bss.flatten = .ok items := by
  induction items generalizing bss fuel with
  | nil =>
    cases bss with
    | nil => cases fuel <;> simp [valgetItems]
    | cons b bs => simp at hp
  | cons c rest ih =>
    cases bss with
    | nil => simp at hp
    | cons bs bss' =>
      simp only [List.map_cons, List.cons.injEq] at hp
      obtain ⟨hpc, hprest⟩ := hp
      obtain ⟨hv, h1, hsg⟩ := hc c (by simp)
      obtain ⟨hu, hlen⟩ := roundtrip c bs hpc hv h1 _ rfl hsg bss'.flatten
      have hvb : 1 ≤ valueBytes c.bits := by
        rcases hv with h | h | h | h | h <;> simp [valueBytes, h]
      simp only [List.flatten_cons, List.length_append] at hf ⊢
      obtain ⟨fuel', rfl⟩ : ∃ f', fuel = f' + 1 := ⟨fuel - 1, by omega⟩
      rw [C14.valget_step fuel' (bs ++ bss'.flatten) (by simp only [List.length_append]; omega) c _ hu]
      have hd : (bs ++ bss'.flatten).drop (4 + valueBytes c.bits) = bss'.flatten := by
        rw [← hlen]; simp
      rw [hd, ih (fun x hx => hc x (by simp [hx])) bss' hprest fuel' (by omega)]
      rfl

end C07

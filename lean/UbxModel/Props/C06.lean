import UbxModel.Proofs.AnsweredKth
/-!
# C06 — A correct answer to the k-th transmission is returned after exactly k sends

Property theorems only; the premises are defined in `Proofs/AnsweredKth.lean`:
* `SetAnswered env reg delay req f lg` (resp. `MgaAnswered`, `PollAnswered`): starting from log `lg`, the
  transmission succeeds and the receive calls that start before its deadline deliver, in any chunking, benign
  traffic (`Quiet`: a C02 grammar stream none of whose valid frames is awaited) followed by the wire form of the
  answer `f` (configuration polls: response, then benign traffic and the ACK-ACK before the re-armed deadline);
* `SetFailsThen … Q k p lg` (resp. `Mga…`, `Poll…`): `k` attempts fail by the model's own outcome, then `Q` holds;
* `EnvFailsThen env F delay wire Q k lg`: the same said about the environment alone — per attempt the
  transmission fails, or the reads of its window contain no checksum-valid frame of an awaited class/id
  (`ContainsAwaited`; silence, garbage, corrupted and truncated frames, unrelated traffic).
The `_env` theorems are the ones to read.
-/
/-! ### the property, at the level of the public methods -/
namespace C06
open Ubx Spec

/-- **C06, `set()`**: `k ≤ retries` failed attempts (of any kind), then an ACK-ACK naming the request or
    an ACK-NAK in time ⇒ that frame is returned, payload intact, after exactly `k+1` transmissions of
    the same bytes — for every server state, receiver, chunking and benign interleaved traffic. -/
theorem set (s : Srv) (env : Env) (lg : Log) (req : Req) (f : RFrame) (k : Nat) (hk : k ≤ s.retries)
    (h : SetFailsThen env s.reg s.delay req (SetAnswered env s.reg s.delay req f) k
      (s.parser.setFilters [ackCid, nakCid]) lg) :
    (s.set env lg req).1 = some f ∧
    (s.set env lg req).2.2.sent = lg.sent ++ List.replicate (k + 1) req.wire := by
  have := set_kth env s.reg s.delay req f k s.retries hk (s.parser.setFilters [ackCid, nakCid]) lg rfl h
  simp only [Srv.set]
  generalize setLoop env s.reg s.delay req (s.retries + 1) (s.parser.setFilters [ackCid, nakCid]) lg = res at this
  obtain ⟨r, p, lg'⟩ := res
  exact this

/-- **C06, `set_mga()`** -/
theorem setMga (s : Srv) (env : Env) (lg : Log) (req : Req) (f : RFrame) (k : Nat) (hk : k ≤ s.retries)
    (h : MgaFailsThen env s.reg s.delay req (MgaAnswered env s.reg s.delay f) k (s.parser.setFilter mgaAckCid) lg) :
    (s.setMga env lg req).1 = some f ∧
    (s.setMga env lg req).2.2.sent = lg.sent ++ List.replicate (k + 1) req.wire := by
  have := setMga_kth env s.reg s.delay req f k s.retries hk (s.parser.setFilter mgaAckCid) lg rfl h
  simp only [Srv.setMga]
  generalize mgaLoop env s.reg s.delay req (s.retries + 1) (s.parser.setFilter mgaAckCid) lg = res at this
  obtain ⟨r, p, lg'⟩ := res
  exact this

/-- **C06, `poll()`**, every request class; the registry is the server's with the request's response
    class registered, as `poll()` does it -/
theorem poll (s : Srv) (env : Env) (lg : Log) (req : Req) (f : RFrame) (k : Nat) (hk : k ≤ s.retries)
    (h : PollFailsThen env (s.reg.register req.cid req.response) s.delay req
      (PollAnswered env (s.reg.register req.cid req.response) s.delay req f) k
      (s.parser.setFilters (pollFilter req.cid)) lg) :
    (s.poll env lg req).1 = some f ∧
    (s.poll env lg req).2.2.sent = lg.sent ++ List.replicate (k + 1) req.wire := by
  have := poll_kth env (s.reg.register req.cid req.response) s.delay req f k s.retries hk
    (s.parser.setFilters (pollFilter req.cid)) lg rfl h
  exact this

end C06

/-! ### …and with the failed attempts described by the environment alone -/
namespace C06
open Ubx Spec

/-- **C06, `set()`, environment-only premise**: the first `k ≤ retries` attempts meet a failing
    transmission or a window without awaited frames; the `k+1`-th is answered in time -/
theorem set_env (s : Srv) (env : Env) (lg : Log) (req : Req) (f : RFrame) (k : Nat) (hk : k ≤ s.retries)
    (h : EnvFailsThen env [ackCid, nakCid] s.delay req.wire (SetAnswered env s.reg s.delay req f) k lg) :
    (s.set env lg req).1 = some f ∧
    (s.set env lg req).2.2.sent = lg.sent ++ List.replicate (k + 1) req.wire :=
  set s env lg req f k hk (set_fails_of_env env s.reg s.delay req _ k _ lg rfl h)

theorem setMga_env (s : Srv) (env : Env) (lg : Log) (req : Req) (f : RFrame) (k : Nat) (hk : k ≤ s.retries)
    (h : EnvFailsThen env [mgaAckCid] s.delay req.wire (MgaAnswered env s.reg s.delay f) k lg) :
    (s.setMga env lg req).1 = some f ∧
    (s.setMga env lg req).2.2.sent = lg.sent ++ List.replicate (k + 1) req.wire :=
  setMga s env lg req f k hk (mga_fails_of_env env s.reg s.delay req _ k _ lg rfl h)

theorem poll_env (s : Srv) (env : Env) (lg : Log) (req : Req) (f : RFrame) (k : Nat) (hk : k ≤ s.retries)
    (h : EnvFailsThen env (pollFilter req.cid) s.delay req.wire
      (PollAnswered env (s.reg.register req.cid req.response) s.delay req f) k lg) :
    (s.poll env lg req).1 = some f ∧
    (s.poll env lg req).2.2.sent = lg.sent ++ List.replicate (k + 1) req.wire :=
  poll s env lg req f k hk (poll_fails_of_env env _ s.delay req _ k _ lg rfl h)

end C06

/-! ### the premises are satisfiable -/
namespace C06
open Ubx Spec

private def rateCid : Cid := ⟨0x06, 0x08⟩
private def ratePl : List Nat := [0xE8, 0x03, 0x01, 0x00, 0x01, 0x00]
private def exReq : Req := { cid := rateCid, payload := [], response := ⟨"UbxCfgRate", fun _ => true⟩ }
private def exReg : Registry := Registry.base.register rateCid ⟨"UbxCfgRate", fun _ => true⟩
/-- a receiver that answers every transmission with CFG-RATE and the ACK-ACK in one read -/
private def exEnv : Env := { tx := fun _ => true, rx := fun _ => (1, wire 0x06 0x08 ratePl ++ wire 0x05 0x01 [0x06, 0x08]) }

private theorem quiet_nil (F : List Cid) : Quiet F [] := fun _ h => by simp [expectedPackets] at h

/-- a configuration-class poll answered at the first transmission: response and ACK in the same read -/
example : PollAnswered exEnv exReg 1800 exReq ⟨rateCid, "UbxCfgRate", ratePl⟩ {} := by
  refine ⟨rfl, [], [], ratePl, by simp, quiet_nil _, rfl, by decide, by decide, ?_⟩
  rw [if_pos (by decide)]
  refine ⟨[], [], [0x06, 0x08], ⟨ackCid, "UbxAckAck", [0x06, 0x08]⟩, by simp, quiet_nil _, rfl, by decide, by decide, by decide, ?_⟩
  refine CoversK.last 0 0 _ (wire 0x05 0x01 [0x06, 0x08]) (by decide) rfl (by simp [stream, wire]) ?_
  exact Or.inl ⟨[], by simp [stream]; rfl⟩

/-- hence `poll()` returns it after exactly one transmission -/
example : ∀ s : Srv, s.reg = Registry.base → s.delay = 1800 →
    (s.poll exEnv {} exReq).1 = some ⟨rateCid, "UbxCfgRate", ratePl⟩ := by
  intro s hr hd
  refine (poll s exEnv {} exReq _ 0 (Nat.zero_le _) ?_).1
  show PollAnswered exEnv (s.reg.register exReq.cid exReq.response) s.delay exReq _ _
  rw [hr, hd]
  refine ⟨rfl, [], [], ratePl, by simp, quiet_nil _, rfl, by decide, by decide, ?_⟩
  rw [if_pos (by decide)]
  refine ⟨[], [], [0x06, 0x08], ⟨ackCid, "UbxAckAck", [0x06, 0x08]⟩, by simp, quiet_nil _, rfl, by decide, by decide, by decide, ?_⟩
  refine CoversK.last 0 0 _ (wire 0x05 0x01 [0x06, 0x08]) (by decide) rfl (by simp [stream, wire]) ?_
  exact Or.inl ⟨[], by simp [stream]; rfl⟩

/-- a receiver that is silent for the whole first window and answers the second transmission -/
private def exEnv3 : Env := { tx := fun _ => true, rx := fun j => if j = 0 then (1800, []) else (1, wire 0x05 0x01 [0x06, 0x08]) }
private def exSet : Req := { cid := ⟨0x06, 0x08⟩, payload := [0xE8, 0x03, 0x01, 0x00, 0x01, 0x00] }

private theorem exIdle (lg : Log) (h0 : lg.now = 0) (h1 : lg.nRx = 0) :
    idle exEnv3 1800 lg = { lg with now := 1800, nRx := 1, calls := lg.calls ++ [.rx] } := by
  rw [idle_eq, if_pos (by omega), idle_eq, if_neg (by simp [h0, h1, exEnv3, tick])]
  simp [h0, h1, exEnv3, tick]

/-- one silent attempt, then the ACK: returned after exactly two transmissions of the same bytes -/
example (s : Srv) (hr : s.reg = Registry.base) (hd : s.delay = 1800) (hn : 1 ≤ s.retries) :
    (s.set exEnv3 {} exSet).1 = some ⟨ackCid, "UbxAckAck", [0x06, 0x08]⟩ ∧
    (s.set exEnv3 {} exSet).2.2.sent = [exSet.wire, exSet.wire] := by
  refine set_env s exEnv3 {} exSet _ 1 hn ?_
  rw [hr, hd]
  simp only [EnvFailsThen]
  rw [if_pos (show (flushSend exEnv3 {} exSet.wire).1 = true from rfl)]
  have hi := exIdle (flushSend exEnv3 {} exSet.wire).2 rfl rfl
  have hnow : (flushSend exEnv3 {} exSet.wire).2.now + 1800 = 1800 := rfl
  rw [hnow, hi]
  refine ⟨onlyMarkers_of_silence _ _ _ _ (fun i h1 h2 => ?_), ?_⟩
  · have : i = 0 := by simp only [flushSend] at h1 h2; omega
    subst this; rfl
  · refine ⟨rfl, [], [], ackCid, [0x06, 0x08], by simp, fun _ h => by simp [expectedPackets] at h, rfl, by decide,
      by simp, by decide, by decide, ?_⟩
    exact Covers.last _ _ _ [] (by decide) (by simp [stream, exEnv3, recover, flushSend]; rfl) (by simp [stream, wire])

end C06

import UbxModel.Spec.Wire
import UbxModel.Spec.Scan
import UbxModel.Spec.Nmea
import UbxModel.Spec.Read
import UbxModel.Spec.Keys
import UbxModel.Spec.Helpers
import UbxModel.Spec.Layouts
import UbxModel.Spec.Rmw
import UbxModel.Spec.Utf8
import UbxModel.Driver.Common
open DriverCommon
/-! Line-protocol driver over the *specification* only (`Spec/` imports neither `Model/` nor `Gen/`):
    the property oracles stay executable when a generated table, the model or a proof no longer
    compiles.  One line in, one line out. -/

/-- `specscan|hex`: the reference scanner's events -/
def runSpecScan (h : String) : String :=
  let evs := Spec.scan 1000 (parseHex h)
  ";".intercalate (evs.map fun | .frame c i pl => s!"{c}/{i}:{toHex pl}" | .bad => "crc")

def showTy : Spec.Ty → String | .u => "u" | .i => "i" | .ch => "ch"
def showLayout (l : Spec.Layout) : String :=
  ",".intercalate (l.map fun (n, off, w, t) => s!"{n}@{off}+{w}{showTy t}")

/-- `layout|<class>|<blocks>`: the prescribed (name, offset, width, type) list -/
def specLayout (cls : String) (n : Nat) : Option Spec.Layout :=
  let blocks (f : Nat → Spec.Layout) := (List.range n).flatMap f
  match cls with
  | "UbxAckAck" => some Spec.UbxAckAck | "UbxAckNak" => some Spec.UbxAckNak
  | "UbxCfgCfgAction" => some Spec.UbxCfgCfgAction | "UbxCfgEsfAlg" => some Spec.UbxCfgEsfAlg
  | "UbxCfgEsflaSet" => some Spec.UbxCfgEsflaSet | "UbxCfgNav5" => some Spec.UbxCfgNav5
  | "UbxCfgNavx5" => some Spec.UbxCfgNavx5 | "UbxCfgNmea" => some Spec.UbxCfgNmea
  | "UbxCfgPrtUart" => some Spec.UbxCfgPrtUart | "UbxCfgPrtPoll" => some Spec.UbxCfgPrtPoll
  | "UbxCfgRate" => some Spec.UbxCfgRate | "UbxCfgRstAction" => some Spec.UbxCfgRstAction
  | "UbxCfgTp5" => some Spec.UbxCfgTp5 | "UbxCfgTp5Poll" => some Spec.UbxCfgTp5Poll
  | "UbxEsfAlg" => some Spec.UbxEsfAlg | "UbxEsfMeas" => some Spec.UbxEsfMeas
  | "UbxMgaAckData0" => some Spec.UbxMgaAckData0 | "UbxMgaIniTimeUtc" => some Spec.UbxMgaIniTimeUtc
  | "UbxNavStatus" => some Spec.UbxNavStatus | "UbxUpdSos" => some Spec.UbxUpdSos
  | "UbxUpdSosAction" => some Spec.UbxUpdSosAction
  | "UbxCfgGnss" => some (Spec.UbxCfgGnss_header ++ blocks Spec.UbxCfgGnss_block)
  | "UbxCfgEsfla" => some (Spec.UbxCfgEsfla_header ++ blocks Spec.UbxCfgEsfla_block)
  | "UbxEsfStatus" => some (Spec.UbxEsfStatus_header ++ blocks Spec.UbxEsfStatus_block)
  | "UbxMonVer" => some (Spec.UbxMonVer_header ++ blocks Spec.UbxMonVer_block)
  | _ => none

/-- `read|<class>|<blocks>|<payload hex>`: the value of every named field per the prescribed layout -/
def runRead (cls n pl : String) : String :=
  match specLayout cls n.toNat! with
  | none => "no-layout"
  | some l =>
    let p := parseHex pl
    ",".intercalate (l.map fun (name, off, w, t) =>
      match t with
      | .u => s!"{name}={Spec.read p off w false}"
      | .i => s!"{name}={Spec.read p off w true}"
      | .ch => s!"{name}=s:{toHex (Spec.readText p off w)}")

def parseSpecVal (s : String) : Spec.FVal :=
  if s.startsWith "s:" then .text (parseHex (String.ofList (s.toList.drop 2))) else .num (parseInt s)

def handle (line : String) : String :=
  match line.trim.splitOn "|" with
  | ["specscan", h] => runSpecScan h
  | ["nmeacount", h] => toString (Spec.Nmea.count (parseHex h))
  | ["wire", c, i, pl] => toHex (Spec.wire c.toNat! i.toNat! (parseHex pl))
  | ["wiregen", c, i, l, s, m] => summary (Spec.wire c.toNat! i.toNat! (lcgPayload l.toNat! s.toNat! m.toNat!)) ++ " same"
  | ["ck", h] => let s := parseHex h; s!"{Spec.ckA s},{Spec.ckB s}"
  | ["ckgen", l, sd, m] => let s := lcgPayload l.toNat! sd.toNat! m.toNat!; s!"{Spec.ckA s},{Spec.ckB s} true"
  | ["layout", c, n] => (match specLayout c n.toNat! with | some l => showLayout l | none => "no-layout")
  | ["read", c, n, pl] => runRead c n pl
  | ["reenc", c, n, pl] => (match specLayout c n.toNat! with
      | some l => toHex (Spec.zeroReserved l (parseHex pl)) | none => "no-layout")
  | ["rmw", c, n, pl, f, v] => (match specLayout c n.toNat! with
      | some l => (match Spec.rmw l (parseHex pl) f (parseSpecVal v) with | some bs => toHex bs | none => "no-such-field")
      | none => "no-layout")
  | ["utf8enc", cps] => toHex (Ubx.Spec.encodeText (if cps.isEmpty then [] else (cps.splitOn ",").map String.toNat!))
  | ["keyid", s, g, i] => toString (Spec.keyId s.toNat! g.toNat! i.toNat!)
  | ["keysigned", k] => toString (Spec.documentedSigned k.toNat!)
  | ["sizebits", s] => (match Spec.sizeBits s.toNat! with | some b => toString b | none => "none")
  | ["initime", y, mo, d, h, mi, s] => toHex (Spec.iniTimeUtc y.toNat! mo.toNat! d.toNat! h.toNat! mi.toNat! s.toNat!)
  | ["rate", r] =>
      (match r.splitOn "/" with
       | [a, b] => let x := Spec.rateQ a.toNat! b.toNat!; s!"{x.1},{x.2}"
       | _ => let x := Spec.rate r.toNat!; s!"{x.1},{x.2}")
  | _ => "bad-line"

def main : IO Unit := do loop handle (← IO.getStdin) (← IO.getStdout)

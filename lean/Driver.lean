import UbxModel.Model.Server
import UbxModel.Model.ParserNmea
import UbxModel.Model.CfgKeys
import UbxModel.Model.Helpers
import UbxModel.Model.Gpsd
import UbxModel.Model.Tty
import UbxModel.Model.Render
import UbxModel.Spec.Scan
import UbxModel.Model.RenderKeys
open Ubx

def hexVal (c : Char) : Nat :=
  if '0' ≤ c ∧ c ≤ '9' then c.toNat - 48 else if 'a' ≤ c ∧ c ≤ 'f' then c.toNat - 87 else c.toNat - 55

def parseHex (s : String) : List Nat :=
  let rec go : List Char → List Nat
    | a :: b :: r => (hexVal a * 16 + hexVal b) :: go r
    | _ => []
  go s.toList

def hexDigit (n : Nat) : Char := if n < 10 then Char.ofNat (48 + n) else Char.ofNat (87 + n)
def toHex (bs : List Nat) : String := String.mk (bs.flatMap fun b => [hexDigit (b / 16), hexDigit (b % 16)])

def parseCid (s : String) : Cid :=
  match s.splitOn ":" with
  | [a, b] => ⟨a.toNat!, b.toNat!⟩
  | _ => ⟨0, 0⟩

def parseCids (s : String) : List Cid := if s.isEmpty then [] else (s.splitOn ",").map parseCid

def showPacket : Packet → String
  | .data cid pl => s!"{cid.cls}/{cid.id}:{toHex pl}"
  | .crcError => "crc"

/-- `ubx|<ops>`: ops separated by `;` — `P<hex>` process, `K` packet(), `D` packet() until the sentinel, `R` restart,
    `E` empty_queue, `F<cids>` set_filters, `S<cid>` set_filter (filter None is the start state).
    `stable=true`: payloads are values here; that the code's payload objects behave like values is what
    `Model/HeapParser` + `Proofs/HeapRefines` are about, and what the harness re-reads on the real side. -/
def runUbx (ops : String) : String :=
  let step (acc : Parser × List String) (op : String) : Parser × List String :=
    let (p, out) := acc
    match op.toList with
    | 'P' :: h => (p.process (parseHex (String.mk h)), out)
    | ['K'] => let (r, p') := p.packet; (p', out ++ [match r with | some x => showPacket x | none => "none"])
    | ['D'] => ({ p with queue := [] }, out ++ p.queue.map showPacket ++ ["."])
    | ['R'] => (p.restart, out)
    | ['E'] => (p.emptyQueue, out)
    | 'F' :: c => (p.setFilters (parseCids (String.mk c)), out)
    | 'S' :: c => (p.setFilter (parseCid (String.mk c)), out)
    | _ => (p, out ++ ["bad-op"])
  let (p, out) := (ops.splitOn ";").foldl step ({}, [])
  String.intercalate " " (out ++ [s!"rx={p.framesRx}", "stable=true"])

def runNmea (ops : String) : String :=
  let step (p : Nmea.P) (op : String) : Nmea.P :=
    match op.toList with
    | 'P' :: h => p.process (parseHex (String.mk h))
    | ['R'] => p.restart
    | _ => p
  let p := (ops.splitOn ";").foldl step {}
  s!"rx={p.framesRx}"

def showCalls (cs : List Call) : String :=
  String.mk (cs.map fun | .flush => 'f' | .tx _ => 't' | .rx => 'r' | .recover => 'v')

/-- `srv|<kind>|<cls>:<id>|<payload hex>|<resp decodable min len>|<retries>|<delay ms>|<tx results>|<rx script>`
    rx script: `dt:hex,dt:hex,…` (dt in 1/1024 s); after the script every receive takes 100 ticks and returns nothing -/
def runSrv (f : List String) : String :=
  match f with
  | [kind, cid, pl, minLen, retries, delay, txs, rxs] =>
    let txl := (txs.splitOn ",").map (· == "1")
    let rxl : List (Nat × List Nat) := if rxs.isEmpty then [] else (rxs.splitOn ",").map fun e =>
      match e.splitOn ":" with
      | [d, h] => (d.toNat! * 125, parseHex h)
      | _ => (125, [])
    let env : Env := { tx := fun k => txl.getD k true, rx := fun j => rxl.getD j (100 * 125, []) }
    let req : Req := { cid := parseCid cid, payload := parseHex pl,
                       response := ⟨"resp", fun p => decide (minLen.toNat! ≤ p.length)⟩ }
    let s : Srv := { retries := retries.toNat!, delay := delay.toNat! * 128 }
    let lg0 : Log := { now := 1024 * 1024 * 125 }
    let showRes (r : Option RFrame) (lg : Log) : String :=
      let rs := match r with | some fr => s!"{fr.cid.cls}/{fr.cid.id}:{fr.tag}:{toHex fr.payload}" | none => "none"
      s!"{rs} sent={lg.sent.length} nrx={lg.nRx} t={(lg.now - lg0.now) / 125} calls={showCalls lg.calls} same={decide (lg.sent.all (· == req.wire))}"
    match kind with
    | "set" => let (r, _, lg) := s.set env lg0 req; showRes r lg
    | "mga" => let (r, _, lg) := s.setMga env lg0 req; showRes r lg
    | "poll" => let (r, _, lg) := s.poll env lg0 req; showRes r lg
    | "faf" => let (_, lg) := s.fireAndForget env lg0 req; showRes none lg
    | _ => "bad-kind"
  | _ => "bad-srv"

/-- `seq|<retries>|<delay ms>|<tx results>|<rx trace>|<req>;<req>;…` with `<req>` = `kind/cls:id/payload hex/minLen`:
    a sequence of requests on ONE server object against one recorded back-end trace -/
def runSeq (f : List String) : String :=
  match f with
  | [retries, delay, txs, rxs, reqs] =>
    let txl := if txs.isEmpty then [] else (txs.splitOn ",").map (· == "1")
    let rxl : List (Nat × List Nat) := if rxs.isEmpty then [] else (rxs.splitOn ",").map fun e =>
      match e.splitOn ":" with
      | [d, h] => (d.toNat! * 125, parseHex h)
      | _ => (125, [])
    let env : Env := { tx := fun k => txl.getD k true, rx := fun j => rxl.getD j (100 * 125, []) }
    let lg0 : Log := { now := 1024 * 1024 * 125 }
    let step (acc : Srv × Log × List String) (r : String) : Srv × Log × List String :=
      let (s, lg, outs) := acc
      match r.splitOn "/" with
      | [kind, cid, pl, minLen] =>
        let req : Req := { cid := parseCid cid, payload := parseHex pl,
                           response := ⟨"resp", fun p => decide (minLen.toNat! ≤ p.length)⟩ }
        let showRes (r : Option RFrame) : String :=
          match r with | some fr => s!"{fr.cid.cls}/{fr.cid.id}:{fr.tag}:{toHex fr.payload}" | none => "none"
        match kind with
        | "set" => let (r, s', lg') := s.set env lg req; (s', lg', outs ++ [showRes r])
        | "mga" => let (r, s', lg') := s.setMga env lg req; (s', lg', outs ++ [showRes r])
        | "poll" => let (r, s', lg') := s.poll env lg req; (s', lg', outs ++ [showRes r])
        | "faf" => let (s', lg') := s.fireAndForget env lg req; (s', lg', outs ++ ["none"])
        | _ => (s, lg, outs ++ ["bad-kind"])
      | _ => (s, lg, outs ++ ["bad-req"])
    let s0 : Srv := { retries := retries.toNat!, delay := delay.toNat! * 128 }
    let (_, lg, outs) := (reqs.splitOn ";").foldl step (s0, lg0, [])
    s!"{";".intercalate outs} sent={lg.sent.length} nrx={lg.nRx} t={(lg.now - lg0.now) / 125} calls={showCalls lg.calls}"
  | _ => "bad-seq"

/-- `specscan|hex`: the reference scanner's events -/
def runSpecScan (h : String) : String :=
  let evs := Spec.scan 1000 (parseHex h)
  ";".intercalate (evs.map fun | .frame c i pl => s!"{c}/{i}:{toHex pl}" | .bad => "crc")

def showExc : Exc → String
  | .valueError => "ValueError" | .structError => "error" | .keyError => "KeyError" | .typeError => "TypeError"
  | .attributeError => "AttributeError" | .indexError => "IndexError" | .assertionError => "AssertionError"
  | .recursionError => "RecursionError" | .nonAscii => "nonascii"

def showVal : Val → String
  | .int v => toString v
  | .str s => "s:" ++ toHex s

/-- static tables by class name (the dynamic ones are assembled from header + blocks) -/
def tableOf (cls : String) (pl : List Nat) : Option Table :=
  match cls with
  | "UbxAckAck" => some Gen.UbxAckAck | "UbxAckNak" => some Gen.UbxAckNak
  | "UbxCfgCfgAction" => some Gen.UbxCfgCfgAction | "UbxCfgEsfAlg" => some Gen.UbxCfgEsfAlg
  | "UbxCfgEsflaSet" => some Gen.UbxCfgEsflaSet | "UbxCfgNav5" => some Gen.UbxCfgNav5
  | "UbxCfgNavx5" => some Gen.UbxCfgNavx5 | "UbxCfgNmea" => some Gen.UbxCfgNmea
  | "UbxCfgPrtUart" => some Gen.UbxCfgPrtUart | "UbxCfgPrtPoll" => some Gen.UbxCfgPrtPoll
  | "UbxCfgRate" => some Gen.UbxCfgRate | "UbxCfgRstAction" => some Gen.UbxCfgRstAction
  | "UbxCfgTp5" => some Gen.UbxCfgTp5 | "UbxCfgTp5Poll" => some Gen.UbxCfgTp5Poll
  | "UbxEsfAlg" => some Gen.UbxEsfAlg | "UbxEsfMeas" => some Gen.UbxEsfMeas
  | "UbxMgaAckData0" => some Gen.UbxMgaAckData0 | "UbxMgaIniTimeUtc" => some Gen.UbxMgaIniTimeUtc
  | "UbxNavStatus" => some Gen.UbxNavStatus | "UbxUpdSos" => some Gen.UbxUpdSos
  | "UbxUpdSosAction" => some Gen.UbxUpdSosAction
  | "UbxCfgGnss" => some (Gen.UbxCfgGnss_header ++ (List.range (pl.getD 3 0)).flatMap Gen.UbxCfgGnss_block)
  | "UbxEsfStatus" => some (Gen.UbxEsfStatus_header ++ (List.range (pl.getD 15 0)).flatMap Gen.UbxEsfStatus_block)
  | "UbxMonVer" => some (Gen.UbxMonVer_header ++ (List.range ((pl.length - 40) / 30)).flatMap Gen.UbxMonVer_block)
  | _ => none

/-- `fields|<class>|<payload hex>`: construct(payload) then pack(): decoded values, re-encoded bytes -/
def runFields (cls pl : String) : String :=
  let payload := parseHex pl
  match tableOf cls payload with
  | none => "no-table"
  | some t =>
    match t.decode payload with
    | .error e => "EXC:" ++ showExc e
    | .ok (vs, _) =>
      let names := (t.zip vs).filter (fun x => match x.1.2 with | .pad _ => false | _ => true)
      let dec := String.intercalate "," (names.map fun x => x.1.1 ++ "=" ++ showVal x.2)
      match t.encode vs with
      | .error e => dec ++ " pack=EXC:" ++ showExc e
      | .ok bs => dec ++ " pack=" ++ toHex bs

def parseInt (s : String) : Int := if s.startsWith "-" then -((s.drop 1).toNat! : Int) else (s.toNat! : Int)

/-- `keypack|group|item|bits|signed|value` and `keyunpack|hex` and `fromkey|key|value` -/
def showItem (c : CfgItem) : String := s!"{c.group},{c.item},{c.bits},{if c.signed then 1 else 0},{c.value}"
def runKeyPack (f : List String) : String :=
  match f with
  | [g, i, b, sg, v] =>
    match ({ group := parseInt g, item := parseInt i, bits := b.toNat!, signed := sg == "1", value := parseInt v } : CfgItem).pack with
    | .ok bs => toHex bs
    | .error e => "EXC:" ++ showExc e
  | _ => "bad"
/-- `keystr|group|item|bits|signed|value`: `str(CfgKeyData('data0', …))` -/
def runKeyStr (f : List String) : String :=
  match f with
  | [g, i, b, sg, v] =>
    match ({ group := parseInt g, item := parseInt i, bits := b.toNat!, signed := sg == "1", value := parseInt v } : CfgItem).text "data0" with
    | .ok t => t
    | .error e => "EXC:" ++ showExc e
  | _ => "bad"
def runKeyUnpack (h : String) : String :=
  match CfgItem.unpack (parseHex h) with
  | .ok (c, n) => s!"{showItem c} n={n}"
  | .error e => "EXC:" ++ showExc e
def runFromKey (k v : String) : String :=
  match CfgItem.fromKey k.toNat! (parseInt v) with
  | .ok c => (match c.pack with | .ok bs => showItem c ++ " " ++ toHex bs | .error e => showItem c ++ " EXC:" ++ showExc e)
  | .error e => "EXC:" ++ showExc e

/-- `gnss|<op>|<system>|<blocks: id:flags,…>` -/
def runGnss (op sys blocks : String) : String :=
  let bl : List GnssBlock := if blocks.isEmpty then [] else (blocks.splitOn ",").map fun e =>
    match e.splitOn ":" with
    | [a, b] => ⟨a.toNat!, 0, 0, b.toNat!⟩
    | _ => ⟨0, 0, 0, 0⟩
  let r := match op with
    | "enable" => enableGnss bl sys.toNat!
    | "disable" => disableGnss bl sys.toNat!
    | "gps_glonass" => gpsGlonass bl
    | _ => gpsGalileoBeidou bl
  String.intercalate "," (r.map fun b => s!"{b.gnssId}:{b.flags}")

/-- `render|<item class>|<value>|<derived-from>` -/
def runRender (cls v d : String) : String :=
  match Ubx.Render.render (Ubx.Render.kindOf cls) v.toNat! d.toNat! with
  | .ok s => s
  | .error e => "EXC:" ++ showExc e

/-- `scan|<interval ticks>|<dt:byte or dt:->,…>` (dt in ticks; after the script reads time out after 100 ticks) -/
def runScan (interval script : String) : String :=
  let evs : List (Nat × Option Nat) := if script.isEmpty then [] else (script.splitOn ",").map fun e =>
    match e.splitOn ":" with
    | [d, "-"] => (d.toNat!, none)
    | [d, b] => (d.toNat!, some b.toNat!)
    | _ => (1, none)
  let env : Ubx.Tty.Env := { rd := fun j => evs.getD j (100, none) }
  let (r, s) := Ubx.Tty.scan env 0 interval.toNat!
  s!"{r} t={s.now} reads={s.j}"

instance : Inhabited Ubx.Gpsd.Json := ⟨.null⟩

/-- tiny JSON value syntax for the driver: n | t | f | 0 | s<hex> | a(<v>;<v>…) | o(<hexkey>=<v>;…) — parsed by a
    recursive-descent reader over a token list -/
partial def parseJ (ts : List String) : Ubx.Gpsd.Json × List String :=
  match ts with
  | "n" :: r => (.null, r)
  | "t" :: r => (.bool true, r)
  | "f" :: r => (.bool false, r)
  | "0" :: r => (.num, r)
  | "a(" :: r =>
      let rec items (acc : List Ubx.Gpsd.Json) (ts : List String) : List Ubx.Gpsd.Json × List String :=
        match ts with
        | ")" :: r => (acc.reverse, r)
        | [] => (acc.reverse, [])
        | _ => let (v, r) := parseJ ts; items (v :: acc) r
      let (xs, r') := items [] r
      (.arr xs, r')
  | "o(" :: r =>
      let rec kvs (acc : List (String × Ubx.Gpsd.Json)) (ts : List String) : List (String × Ubx.Gpsd.Json) × List String :=
        match ts with
        | ")" :: r => (acc.reverse, r)
        | [] => (acc.reverse, [])
        | k :: r => let (v, r') := parseJ r; kvs ((String.mk ((parseHex k).map Char.ofNat), v) :: acc) r'
      let (xs, r') := kvs [] r
      (.obj xs, r')
  | t :: r => if t.startsWith "s" then (.str (String.mk ((parseHex (String.mk (t.toList.drop 1))).map Char.ofNat)), r) else (.null, r)
  | [] => (.null, [])

/-- `gpsd|<requested hex or ->|<chunk>/<chunk>…` chunk: `U` (undecodable) or lines `;`-separated: `X` notJson, `D` tooDeep,
    or a JSON value as space-separated tokens -/
def runGpsd (req chunks : String) : String :=
  let name : Option String := if req == "-" then none else some (String.mk ((parseHex req).map Char.ofNat))
  let parseLineTok (l : String) : Ubx.Gpsd.Line :=
    if l == "X" then .notJson else if l == "D" then .tooDeep else .value (parseJ (l.splitOn " ")).1
  let step (acc : Except Exc Ubx.Gpsd.State × List String) (c : String) : Except Exc Ubx.Gpsd.State × List String :=
    match acc.1 with
    | .error _ => acc
    | .ok st =>
      let ch : Ubx.Gpsd.Chunk := if c == "U" then .undecodable else .lines (if c.isEmpty then [] else (c.splitOn ";").map parseLineTok)
      match Ubx.Gpsd.parseChunk st ch with
      | .error e => (.error e, acc.2 ++ ["EXC:" ++ showExc e])
      | .ok st' => (.ok st', acc.2 ++ [s!"{st'.selected.getD "None"},{st'.enabled},{st'.release.getD "None"}"])
  let (_, out) := (chunks.splitOn "/").foldl step (.ok (Ubx.Gpsd.State.init name), [])
  String.intercalate " " out

/-- `frame|cls|id|<payload hex>` → to_bytes() twice; `ck|a|b` → next states for all 256 bytes from state (a, b) -/
def runFrame (c i pl : String) : String :=
  let f : Frame := { cls := c.toNat!, id := i.toNat!, data := parseHex pl }
  let (f1, b1) := f.toBytes
  let (_, b2) := f1.toBytes
  toHex b1 ++ " " ++ (if b1 == b2 && f1.data == f.data then "same" else "DIFF")
def runCk (a b : String) : String :=
  let c : Ck := ⟨a.toNat!, b.toNat!⟩
  toHex ((List.range 256).flatMap fun x => let n := c.add x; [n.a, n.b])

def handle (line : String) : String :=
  match line.trim.splitOn "|" with
  | ["ubx", ops] => runUbx ops
  | ["nmea", ops] => runNmea ops
  | "srv" :: rest => runSrv rest
  | ["specscan", h] => runSpecScan h
  | "seq" :: rest => runSeq rest
  | ["fields", c, pl] => runFields c pl
  | "keypack" :: rest => runKeyPack rest
  | "keystr" :: rest => runKeyStr rest
  | ["keyunpack", h] => runKeyUnpack h
  | ["fromkey", k, v] => runFromKey k v
  | ["gnss", op, sys, bl] => runGnss op sys bl
  | ["render", c, v, d] => runRender c v d
  | ["frame", c, i, pl] => runFrame c i pl
  | ["ck", a, b] => runCk a b
  | ["scan", i, sc] => runScan i sc
  | ["gpsd", r, c] => runGpsd r c
  | _ => "bad-line"

partial def loop (h : IO.FS.Stream) (out : IO.FS.Stream) : IO Unit := do
  let line ← h.getLine
  if line.isEmpty then return ()
  out.putStrLn (handle line)
  loop h out

def main : IO Unit := do loop (← IO.getStdin) (← IO.getStdout)

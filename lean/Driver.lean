import UbxModel.Model.Server
import UbxModel.Model.ParserNmea
import UbxModel.Model.CfgKeys
import UbxModel.Model.Helpers
import UbxModel.Model.Gpsd
import UbxModel.Model.Tty
import UbxModel.Model.Render
import UbxModel.Spec.Scan
import UbxModel.Model.RenderKeys
import UbxModel.Model.Messages
import UbxModel.Model.ValSetGet
import UbxModel.Model.Level
import UbxModel.Driver.Common
open Ubx
open DriverCommon

/-- the key table of every line that does not say otherwise: the one generated from the source -/
instance : KeyTable := publishedTable

def parseCid (s : String) : Cid :=
  match s.splitOn ":" with
  | [a, b] => ⟨a.toNat!, b.toNat!⟩
  | _ => ⟨0, 0⟩

def parseCids (s : String) : List Cid := if s.isEmpty then [] else (s.splitOn ",").map parseCid

def showPacket : Packet → String
  | .data cid pl => s!"{cid.cls}/{cid.id}:{toHex pl}"
  | .crcError => "crc"

/-- `process()` takes any iterable of byte values: the harness hands the chunk over as bytes (P), bytearray (A), list (L),
    memoryview (M), iterator (I) or generator (G); to the model they are the same bytes -/
def feedOp (op : String) : List Char :=
  match op.toList with
  | 'O' :: h => 'P' :: (h.dropWhile (· != ':')).drop 1      -- `O<n>:<hex>`: process() with another parser busy in the middle
  | c :: h => if "ALMIG".toList.contains c then 'P' :: h else c :: h
  | [] => []

/-- `ubx|<ops>`: ops separated by `;` — `P<hex>` process, `K` packet(), `D` packet() until the sentinel, `R` restart,
    `E` empty_queue, `F<cids>` set_filters, `S<cid>` set_filter (filter None is the start state).
    `stable=true`: payloads are values here; that the code's payload objects behave like values is what
    `Model/HeapParser` + `Proofs/HeapRefines` are about, and what the harness re-reads on the real side. -/
def ubxStep (acc : Parser × List String) (op : String) : Parser × List String :=
  let (p, out) := acc
  match feedOp op with
  | 'P' :: h => (p.process (parseHex (String.mk h)), out)
  | ['K'] => let (r, p') := p.packet; (p', out ++ [match r with | some x => showPacket x | none => "none"])
  | ['D'] => ({ p with queue := [] }, out ++ p.queue.map showPacket ++ ["."])
  | ['R'] => (p.restart, out)
  | 'Z' :: r =>       -- one process() call over a lazy source that calls restart() between its two parts
      (match (String.mk r).splitOn "~" with
       | [a, b] => (((p.process (parseHex a)).restart).process (parseHex b), out)
       | _ => (p, out ++ ["bad-op"]))
  | 'T' :: _ => (p, out)                  -- time passing between two calls: no part of the parser's state
  | 'C' :: _ => (p, out)                  -- the history goes on with a copy of the parser (deepcopy, copy, pickle): the same value
  | 'H' :: c => (p.setFilters (parseCids (String.mk c)), out)     -- set_filters with the list object passed before, changed in place
  | ['E'] => (p.emptyQueue, out)
  | 'F' :: c => (p.setFilters (parseCids (String.mk c)), out)
  | 'S' :: c => (p.setFilter (parseCid (String.mk c)), out)
  | _ => (p, out ++ ["bad-op"])

def runUbx (ops : String) : String :=
  let (p, out) := (ops.splitOn ";").foldl ubxStep ({}, [])
  String.intercalate " " (out ++ [s!"rx={p.framesRx}", "stable=true"])

/-- the stream of a bulk line: `n` frames 01/07 whose two payload bytes count up; mode 1: every checksum wrong, mode 2: every
    third one -/
def bulkStream (n mode : Nat) : List Nat :=
  (List.range n).flatMap fun k =>
    let f : Frame := { cls := 1, id := 7, data := [k % 256, k / 256 % 256] }
    let b := f.toBytes.2
    if mode = 1 || (mode = 2 && k % 3 = 0) then b.take (b.length - 1) ++ [(b.getLast! + 1) % 256] else b

/-- `ubxbulk|<n>|<mode>|<ops>`: a long history on one parser - filter 01/07, `n` frames fed without draining, then the
    operations; the tokens are summarised (count, digest, the last few) -/
def runUbxBulk (n mode : Nat) (ops : String) : String :=
  let p0 : Parser := (({} : Parser).setFilters [⟨1, 7⟩]).process (bulkStream n mode)
  let (p, out) := (ops.splitOn ";").foldl ubxStep (p0, [])
  let toks := out ++ [s!"rx={p.framesRx}"]
  let joined := " ".intercalate toks
  s!"count={toks.length} h={digest (joined.toUTF8.toList.map UInt8.toNat)} tail={" ".intercalate (toks.drop (toks.length - 4))}"

def runNmea (ops : String) : String :=
  let step (p : Nmea.P) (op : String) : Nmea.P :=
    match feedOp op with
    | 'P' :: h => p.process (parseHex (String.mk h))
    | ['R'] => p.restart
    | 'Z' :: r =>
        (match (String.mk r).splitOn "~" with
         | [a, b] => ((p.process (parseHex a)).restart).process (parseHex b)
         | _ => p)
    | _ => p
  let p := (ops.splitOn ";").foldl step {}
  s!"rx={p.framesRx}"

/-- `specscan|hex`: the reference scanner's events -/
def runSpecScan (h : String) : String :=
  let evs := Spec.scan 1000 (parseHex h)
  ";".intercalate (evs.map fun | .frame c i pl => s!"{c}/{i}:{toHex pl}" | .bad => "crc")

def showExc : Exc → String
  | .valueError => "ValueError" | .structError => "error" | .keyError => "KeyError" | .typeError => "TypeError"
  | .attributeError => "AttributeError" | .indexError => "IndexError" | .assertionError => "AssertionError"
  | .recursionError => "RecursionError"

def showVal : Val → String
  | .int v => toString v
  | .str s => "s:" ++ toHex s

/-- static tables by class name -/
def staticTable (cls : String) : Option Table :=
  match cls with
  | "UbxAckAck" => some Gen.UbxAckAck | "UbxAckNak" => some Gen.UbxAckNak
  | "UbxCfgCfgAction" => some Gen.UbxCfgCfgAction | "UbxCfgEsfAlg" => some Gen.UbxCfgEsfAlg
  | "UbxCfgEsflaSet" => some Gen.UbxCfgEsflaSet | "UbxCfgNav5" => some Gen.UbxCfgNav5
  | "UbxCfgNavx5" => some Gen.UbxCfgNavx5 | "UbxCfgNmea" => some Gen.UbxCfgNmea
  | "UbxCfgPrtUart" => some Gen.UbxCfgPrtUart | "UbxCfgPrtPoll" => some Gen.UbxCfgPrtPoll
  | "UbxCfgRate" => some Gen.UbxCfgRate | "UbxCfgRstAction" => some Gen.UbxCfgRstAction
  | "UbxCfgTp5" => some Gen.UbxCfgTp5 | "UbxCfgTp5Poll" => some Gen.UbxCfgTp5Poll
  | "UbxEsfAlg" => some Gen.UbxEsfAlg | "UbxEsfMeas" => some Gen.UbxEsfMeas
  | "UbxMgaAckData0" => some Gen.UbxMgaAckData0 | "UbxMgaIniTimeUtc" => some Gen.UbxMgaIniTimeUtc
  | "UbxNavStatus" => some Gen.UbxNavStatus | "UbxUpdSos" => some Gen.UbxUpdSos
  | "UbxUpdSosAction" => some Gen.UbxUpdSosAction
  | _ => none

/-- `Class.construct(payload)` → (field table of the object, values) -/
def decodeClass (cls : String) (pl : List Nat) : Option (Except Exc (Table × List Val)) :=
  match cls with
  | "UbxCfgGnss" => some (decodeGnss pl)
  | "UbxCfgEsfla" => some (decodeEsfla pl)
  | "UbxEsfStatus" => some (decodeEsfStatus pl)
  | "UbxMonVer" => some (decodeMonVer pl)
  | _ => (staticTable cls).map fun t => (t.decode pl).map fun r => (t, r.1)

def isPad : Kind → Bool | .pad _ => true | _ => false

def showFields (t : Table) (vs : List Val) : String :=
  String.intercalate "," (((t.zip vs).filter fun x => !isPad x.1.2).map fun x => x.1.1 ++ "=" ++ showVal x.2)

/-- `fields|<class>|<payload hex>`: construct(payload) then pack(): decoded values, re-encoded bytes -/
def runFields (cls pl : String) : String :=
  match decodeClass cls (parseHex pl) with
  | none => "no-table"
  | some (.error e) => "EXC:" ++ showExc e
  | some (.ok (t, vs)) =>
      match t.encode vs with
      | .error e => showFields t vs ++ " pack=EXC:" ++ showExc e
      | .ok bs => showFields t vs ++ " pack=" ++ toHex bs

/-- `ch|<n>|<data hex>`: one `CH(n)` item: unpack(data), then pack() -/
def runCh (n : Nat) (data : List Nat) : String :=
  match (Kind.text n).unpack data with
  | .error e => "EXC:" ++ showExc e
  | .ok (v, k) =>
      match (Kind.text n).pack v with
      | .error e => s!"{k} {showVal v} pack=EXC:{showExc e}"
      | .ok bs => s!"{k} {showVal v} pack={toHex bs}"

/-- `subitem|<parent>|<fmt>|<value>`: an item type derived from a library type with another `fmt` (what `Item.fmt` is there
    for): pack the value, unpack the bytes - by the derived type's format, whatever its parent is -/
def runSubItem (fmt : String) (v : Int) : String :=
  let k : Option Kind := match fmt with
    | "B" => some (.uint 1) | "H" => some (.uint 2) | "I" => some (.uint 4) | "Q" => some (.uint 8)
    | "b" => some (.sint 1) | "h" => some (.sint 2) | "i" => some (.sint 4) | "q" => some (.sint 8)
    | _ => none
  match k with
  | none => "bad-line"
  | some k =>
    match k.pack (.int v) with
    | .error e => "pack=EXC:" ++ showExc e
    | .ok bs =>
      match k.unpack bs with
      | .error e => s!"pack={toHex bs} back=EXC:{showExc e}"
      | .ok (w, n) => s!"pack={toHex bs} back={showVal w} n={n}"

def parseVal (s : String) : Val :=
  if s.startsWith "s:" then .str (parseHex (String.ofList (s.toList.drop 2))) else .int (parseInt s)

def setField (t : Table) (vs : List Val) (name : String) (v : Val) : List Val :=
  match t.findIdx? (fun x => x.1 == name) with
  | some i => vs.set i v
  | none => vs

def getField (t : Table) (vs : List Val) (name : String) : Option Val :=
  ((t.zip vs).find? fun x => x.1.1 == name).map (·.2)

/-- `assign|<class>|<payload hex>|<field>|<value>`: construct, assign one field, pack, construct again -/
def runAssign (cls pl field val : String) : String :=
  match decodeClass cls (parseHex pl) with
  | none => "no-table"
  | some (.error e) => "EXC:" ++ showExc e
  | some (.ok (t, vs)) =>
      match t.encode (setField t vs field (parseVal val)) with
      | .error e => "pack=EXC:" ++ showExc e
      | .ok bs =>
          match decodeClass cls bs with
          | some (.ok (t', vs')) =>
              s!"pack={toHex bs} back={match getField t' vs' field with | some v => showVal v | none => "missing"}"
          | some (.error e) => s!"pack={toHex bs} back=EXC:{showExc e}"
          | none => "no-table"

/-- the response class of a poll: a number n = a synthetic class that decodes payloads of at least n bytes,
    otherwise the name of a real class, decodable iff `construct(payload)` succeeds in the model -/
def respInfo (tok : String) : ClassInfo :=
  if tok.all Char.isDigit && !tok.isEmpty then ⟨"resp" ++ tok, fun p => decide (tok.toNat! ≤ p.length)⟩
  else if tok == "UbxCfgValGet" then ⟨tok, fun p => match valgetDecode p with | .ok _ => true | .error _ => false⟩
  else ⟨tok, fun p => match decodeClass tok p with | some (.ok _) => true | _ => false⟩

def showCalls (cs : List Call) : String :=
  String.mk (cs.map fun | .flush => 'f' | .tx _ => 't' | .rx => 'r' | .recover => 'v')

/-- `srv|<kind>|<cls>:<id>|<payload hex>|<resp decodable min len>|<retries>|<delay ms>|<tx results>|<rx script>`
    rx script: `dt:hex,dt:hex,…` (dt in 1/1024 s); after the script every receive takes 100 ticks and returns nothing -/
def runSrv (f : List String) : String :=
  match f with
  | [kind, cid, pl, minLen, retries, delay, txs, rxs] =>
    let txl := (txs.splitOn ",").map (· == "1")
    let rxl : List (Nat × List Nat) := if rxs.isEmpty then [] else (rxs.splitOn ",").map fun e =>
      match e.splitOn ":" with
      | [d, h] => (d.toNat! * 125, parseHex h)
      | _ => (125, [])
    let env : Env := { tx := fun k => txl.getD k true, rx := fun j => rxl.getD j (100 * 125, []) }
    let req : Req := { cid := parseCid cid, payload := parseHex pl,
                       response := respInfo minLen }
    let s : Srv := { retries := retries.toNat!, delay := delay.toNat! * 128 }
    let lg0 : Log := { now := 1024 * 1024 * 125 }
    let showRes (r : Option RFrame) (lg : Log) : String :=
      let rs := match r with | some fr => s!"{fr.cid.cls}/{fr.cid.id}:{fr.tag}:{toHex fr.payload}" | none => "none"
      s!"{rs} sent={lg.sent.length} nrx={lg.nRx} t={(lg.now - lg0.now) / 125} calls={showCalls lg.calls} same={decide (lg.sent.all (· == req.wire))}"
    match kind with
    | "set" => let (r, _, lg) := s.set env lg0 req; showRes r lg
    | "mga" => let (r, _, lg) := s.setMga env lg0 req; showRes r lg
    | "poll" => let (r, _, lg) := s.poll env lg0 req; showRes r lg
    | "faf" => let (_, lg) := s.fireAndForget env lg0 req; showRes none lg
    | _ => "bad-kind"
  | _ => "bad-srv"

/-- `seq|<retries>|<delay ms>|<tx results>|<rx trace>|<req>;<req>;…` with `<req>` = `kind/cls:id/payload hex/minLen`:
    a sequence of requests on ONE server object against one recorded back-end trace -/
def runSeq (f : List String) : String :=
  match f with
  | [retries, delay, txs, rxs, reqs] =>
    let txl := if txs.isEmpty then [] else (txs.splitOn ",").map (· == "1")
    let rxl : List (Nat × List Nat) := if rxs.isEmpty then [] else (rxs.splitOn ",").map fun e =>
      match e.splitOn ":" with
      | [d, h] => (d.toNat! * 125, parseHex h)
      | _ => (125, [])
    let env : Env := { tx := fun k => txl.getD k true, rx := fun j => rxl.getD j (100 * 125, []) }
    let lg0 : Log := { now := 1024 * 1024 * 125 }
    let step (acc : Srv × Log × List String) (r : String) : Srv × Log × List String :=
      let (s, lg, outs) := acc
      match r.splitOn "/" with
      | [kind, cid, pl, minLen] =>
        let req : Req := { cid := parseCid cid, payload := parseHex pl,
                           response := respInfo minLen }
        let showRes (r : Option RFrame) : String :=
          match r with | some fr => s!"{fr.cid.cls}/{fr.cid.id}:{fr.tag}:{toHex fr.payload}" | none => "none"
        match kind with
        | "set" => let (r, s', lg') := s.set env lg req; (s', lg', outs ++ [showRes r])
        | "mga" => let (r, s', lg') := s.setMga env lg req; (s', lg', outs ++ [showRes r])
        | "poll" => let (r, s', lg') := s.poll env lg req; (s', lg', outs ++ [showRes r])
        | "faf" => let (s', lg') := s.fireAndForget env lg req; (s', lg', outs ++ ["none"])
        | _ => (s, lg, outs ++ ["bad-kind"])
      | _ => (s, lg, outs ++ ["bad-req"])
    let s0 : Srv := { retries := retries.toNat!, delay := delay.toNat! * 128 }
    let (_, lg, outs) := (reqs.splitOn ";").foldl step (s0, lg0, [])
    s!"{";".intercalate outs} sent={lg.sent.length} nrx={lg.nRx} t={(lg.now - lg0.now) / 125} calls={showCalls lg.calls}"
  | _ => "bad-seq"

def parseItem (e : String) : CfgItem :=
  match e.splitOn "," with
  | [g, i, b, sg, v] => { group := parseInt g, item := parseInt i, bits := b.toNat!, signed := sg == "1", value := parseInt v }
  | _ => { group := -1, item := 0, bits := 0, signed := false, value := 0 }

def showItem' (c : CfgItem) : String := s!"{c.group},{c.item},{c.bits},{if c.signed then 1 else 0},{c.value}"

/-- `valset|item;item;…`, `valgetpoll|key,key,…`, `valget|<payload hex>` -/
def runValset (items : String) : String :=
  match valsetPayload ((items.splitOn ";").map parseItem) with
  | .ok bs => toHex bs
  | .error e => "EXC:" ++ showExc e
def runValgetPoll (keys : String) : String :=
  match valgetPollPayload ((keys.splitOn ",").map parseInt) with
  | .ok bs => toHex bs
  | .error e => "EXC:" ++ showExc e
def runValget (pl : String) : String :=
  match valgetDecode (parseHex pl) with
  | .ok (v, l, p, items) => s!"{v},{l},{p} " ++ ";".intercalate (items.map showItem')
  | .error e => "EXC:" ++ showExc e

/-- `valgetrt|<payload hex>|<dataK=value or empty>`: construct, optionally assign one item's value, pack -/
def runValgetRt (pl edit : String) : String :=
  match valgetDecode (parseHex pl) with
  | .error e => "EXC:" ++ showExc e
  | .ok (v, l, p, items) =>
    let items := match edit.splitOn "=" with
      | [k, nv] => (items.zipIdx.map fun (c, i) => if k == s!"data{i}" then { c with value := parseInt nv } else c)
      | _ => items
    let hdr : Except Exc (List Nat) := do
      let a ← packU 1 v; let b ← packU 1 l; let c ← packU 2 p; pure (a ++ b ++ c)
    match hdr, packItems items with
    | .ok h, .ok bs => toHex (h ++ bs)
    | .error e, _ => "EXC:" ++ showExc e
    | _, .error e => "EXC:" ++ showExc e

def encodeOr (t : Table) (vs : List Val) : String :=
  match t.encode vs with
  | .ok bs => toHex bs
  | .error e => "EXC:" ++ showExc e

def freshVals (t : Table) : List Val := t.map fun x => x.2.default

def setInts (t : Table) (vs : List Val) (kv : List (String × Int)) : List Val :=
  kv.foldl (fun acc x => setField t acc x.1 (.int x.2)) vs

/-- values of a fresh frame, or of one decoded from `init` -/
def startVals (t : Table) (init : String) : Except Exc (List Val) :=
  if init == "-" || init.isEmpty then .ok (freshVals t) else (t.decode (parseHex init)).map (·.1)

/-- `helper|<name>|args…|<initial payload hex or ->`: the convenience setters applied to a fresh or decoded frame, then `pack()` -/
def runHelper (f : List String) : String :=
  let go (t : Table) (init : String) (k : List Val → String) : String :=
    match startVals t init with
    | .error e => "EXC:" ++ showExc e
    | .ok vs => k vs
  match f with
  | ["rate", r, pl] =>
      match Gen.UbxCfgRate.decode (parseHex pl) with
      | .error e => "EXC:" ++ showExc e
      | .ok (vs, _) =>
        match r.splitOn "/" with
        | [a, b] =>       -- a rate that is no whole number: a/b Hz
          let (num, den) := (a.toNat!, b.toNat!)
          if den = 0 ∨ num < den ∨ num > 10 * den then "EXC:AssertionError"
          else
            let (m, n) := setRateQ num den
            encodeOr Gen.UbxCfgRate (setInts Gen.UbxCfgRate vs [("measRate", m), ("navRate", n)])
        | _ =>
          let r := parseInt r
          if r < 1 ∨ r > 10 then "EXC:AssertionError"
          else
            let (m, n) := setRateInHz r.toNat
            encodeOr Gen.UbxCfgRate (setInts Gen.UbxCfgRate vs [("measRate", m), ("navRate", n)])
  | "save" :: m :: rest =>
      let (c, s, l) := cfgSave m.toNat!
      let t := Gen.UbxCfgCfgAction
      go t (rest.headD "-") fun vs => encodeOr t (setInts t vs [("clearMask", c), ("saveMask", s), ("loadMask", l)])
  | "reset" :: m :: rest =>
      let (c, s, l) := cfgReset m.toNat!
      let t := Gen.UbxCfgCfgAction
      go t (rest.headD "-") fun vs => encodeOr t (setInts t vs [("clearMask", c), ("saveMask", s), ("loadMask", l)])
  | "rst" :: a :: rest =>
      let (mask, mode) := match a with
        | "warm_start" => rstWarmStart | "cold_start" => rstColdStart | "start" => rstStart | _ => rstStop
      let t := Gen.UbxCfgRstAction
      go t (rest.headD "-") fun vs => encodeOr t (setInts t vs [("navBbrMask", mask), ("resetMode", mode)])
  | "sos" :: a :: rest =>
      let t := Gen.UbxUpdSosAction
      go t (rest.headD "-") fun vs => encodeOr t (setInts t vs [("cmd", if a == "backup" then sosBackup else sosClear)])
  | "esflaset" :: ty :: x :: y :: z :: rest =>
      let t := Gen.UbxCfgEsflaSet
      let init := rest.headD "-"
      match esflaSet (parseInt ty) (parseInt x) (parseInt y) (parseInt z) with
      | none => (match startVals t init with | .error e => "EXC:" ++ showExc e | .ok _ => "EXC:AssertionError")
      | some [v, n, _, lt, _, lx, ly, lz] =>
          -- `__init__` sets version / numConfigs; `set()` itself the lever arm only
          go t init fun vs => encodeOr t (setInts t vs ((if init == "-" || init.isEmpty then [("version", v), ("numConfigs", n)] else []) ++
            [("leverArmType", lt), ("leverArmX", lx), ("leverArmY", ly), ("leverArmZ", lz)]))
      | some _ => "bad-model"
  | "utc" :: y :: mo :: d :: h :: mi :: s :: rest =>
      let t := Gen.UbxMgaIniTimeUtc
      match setDatetime y.toNat! mo.toNat! d.toNat! h.toNat! mi.toNat! s.toNat! with
      | [ty, ver, rf, leap, yy, mm, dd, hh, mn, ss, _, ns, tas, _, tan] =>
          go t (rest.headD "-") fun vs => encodeOr t (setInts t vs [("type", ty), ("version", ver), ("ref", rf), ("leapSecs", leap), ("year", yy),
            ("month", mm), ("day", dd), ("hour", hh), ("minute", mn), ("second", ss), ("ns", ns), ("tAccS", tas), ("tAccNs", tan)])
      | _ => "bad-model"
  | ["leverarm", ty, pl] =>
      match decodeEsfla (parseHex pl) with
      | .error e => "EXC:" ++ showExc e
      | .ok (t, vs) =>
        let n := fieldNat t vs "numConfigs"
        let geti (name : String) : Int := match getField t vs name with | some (.int v) => v | _ => 0
        let arms := (List.range n).map fun i =>
          ((geti s!"leverArmType_{i}").toNat, geti s!"leverArmX_{i}", geti s!"leverArmY_{i}", geti s!"leverArmZ_{i}")
        match leverArm arms ty.toNat! with
        | some (x, y, z) => s!"{x},{y},{z}"
        | none => "none"
  | _ => "bad-line"

/-- renderer of a field: the item class the code uses for it (generated `itemClasses`; block fields are
    listed under their `_0` name) -/
def rkindOf (cls field : String) : Ubx.Render.RKind :=
  let base := match field.splitOn "_" with
    | [a, b] => if b.all Char.isDigit && !b.isEmpty then a ++ "_0" else field
    | _ => field
  match Gen.itemClasses.find? (fun e => e.1 == cls && (e.2.1 == field || e.2.1 == base)) with
  | some e => Ubx.Render.kindOf e.2.2
  | none => .plain

def valNat : Val → Nat | .int v => v.toNat | .str _ => 0

/-- `strval|valset|items`, `strval|valgetpoll|keys`, `strval|valget|<payload hex>`: `str()` of the frames whose fields are
    configuration items -/
def runStrVal (kind arg : String) : String :=
  let itemsText (items : List CfgItem) : Except Exc Nat :=
    (items.zipIdx.mapM fun (x : CfgItem × Nat) => x.1.text s!"data{x.2}").map (·.length)
  match kind with
  | "valset" =>
      (match itemsText ((arg.splitOn ";").map parseItem) with
       | .ok n => s!"ok name=true missing=- items={4 + n}"
       | .error e => "EXC:" ++ showExc e)
  | "valgetpoll" => s!"ok name=true missing=- items={3 + (arg.splitOn ",").length}"
  | _ =>
      (match valgetDecode (parseHex arg) with
       | .error e => "EXC:" ++ showExc e
       | .ok (_, _, _, items) =>
         match itemsText items with
         | .ok n => s!"ok name=true missing=- items={3 + n}"
         | .error e => "EXC:" ++ showExc e)

/-- `str|<class>|<payload hex or ->|field=value,…`: `str(frame)` of a fresh / decoded / edited frame -/
def runStr (cls pl edits : String) : String :=
  let dyn := cls == "UbxCfgGnss" || cls == "UbxCfgEsfla" || cls == "UbxEsfStatus" || cls == "UbxMonVer"
  let start : Option (Except Exc (Table × List Val)) :=
    if pl == "-" then (if dyn then some (.ok ([], [])) else (staticTable cls).map fun t => .ok (t, freshVals t))
    else decodeClass cls (parseHex pl)
  match start with
  | none => "no-table"
  | some (.error e) => "EXC:" ++ showExc e
  | some (.ok (t, vs)) =>
    let cur := if edits.isEmpty then vs else (edits.splitOn ",").foldl (fun acc e =>
      match e.splitOn "=" with
      | [k, v] => setField t acc k (parseVal v)
      | _ => acc) vs
    let fields := ((t.zip (cur.zip vs)).filter fun x => !isPad x.1.2).map fun x =>
      (x.1.1, rkindOf cls x.1.1, valNat x.2.1, valNat x.2.2)
    let info := Gen.frameClasses.find? fun e => e.1 == cls
    let name := match info with | some e => e.2.2.2 | none => "?"
    let cid : Cid := match info with | some e => ⟨e.2.1, e.2.2.1⟩ | none => ⟨0, 0⟩
    match Ubx.Render.frameText name cid fields with
    | .ok _ => "ok name=true missing=-"
    | .error e => "EXC:" ++ showExc e

/-- `keypack|group|item|bits|signed|value` and `keyunpack|hex` and `fromkey|key|value` -/
def showItem (c : CfgItem) : String := s!"{c.group},{c.item},{c.bits},{if c.signed then 1 else 0},{c.value}"
def runKeyPack (f : List String) : String :=
  match f with
  | [g, i, b, sg, v] =>
    match ({ group := parseInt g, item := parseInt i, bits := b.toNat!, signed := sg == "1", value := parseInt v } : CfgItem).pack with
    | .ok bs => toHex bs
    | .error e => "EXC:" ++ showExc e
  | _ => "bad"
/-- `keystr|group|item|bits|signed|value`: `str(CfgKeyData('data0', …))` -/
def runKeyStr (f : List String) : String :=
  match f with
  | [g, i, b, sg, v] =>
    match ({ group := parseInt g, item := parseInt i, bits := b.toNat!, signed := sg == "1", value := parseInt v } : CfgItem).text "data0" with
    | .ok t => t
    | .error e => "EXC:" ++ showExc e
  | _ => "bad"
/-- `keyseq|<ops>`: ONE item object (starts as group 0, item 0, 8 bit, value 0): P pack, S str, U<hex> unpack into it,
    G/I/B/V/Z assign group / item / bits / value / signed -/
def runKeySeq (ops : String) : String :=
  let (_, out) := (ops.splitOn ";").foldl (fun (acc : CfgItem × List String) op =>
    let (c, out) := acc
    let arg := String.ofList (op.toList.drop 1)
    match op.toList.head? with
    | some 'P' => (c, out ++ [match c.pack with | .ok bs => toHex bs | .error e => "EXC:" ++ showExc e])
    | some 'S' => (c, out ++ [match c.text "data0" with | .ok t => "str:" ++ t.replace " " "_" | .error e => "EXC:" ++ showExc e])
    | some 'U' =>
        (match CfgItem.unpack (parseHex arg) with
         | .ok (c', n) => (c', out ++ [s!"{showItem c'},n={n}"])
         | .error e => (c, out ++ ["EXC:" ++ showExc e]))
    | some 'G' => ({ c with group := parseInt arg }, out)
    | some 'I' => ({ c with item := parseInt arg }, out)
    | some 'B' => ({ c with bits := arg.toNat! }, out)
    | some 'V' => ({ c with value := parseInt arg }, out)
    | some 'Z' => ({ c with signed := arg == "1" }, out)
    | _ => acc) (({ group := 0, item := 0, bits := 8, signed := false, value := 0 } : CfgItem), [])
  " ".intercalate out
def runKeyUnpack (h : String) : String :=
  match CfgItem.unpack (parseHex h) with
  | .ok (c, n) => s!"{showItem c} n={n}"
  | .error e => "EXC:" ++ showExc e
def runFromKey (k v : String) : String :=
  match CfgItem.fromKey k.toNat! (parseInt v) with
  | .ok c => (match c.pack with | .ok bs => showItem c ++ " " ++ toHex bs | .error e => showItem c ++ " EXC:" ++ showExc e)
  | .error e => "EXC:" ++ showExc e

/-- `keytab|<op>;…`: the key table changes while items are decoded and built - `T<key>:<1|0|->` registers a key as signed /
    unsigned or removes it, `U<hex>` decodes an item, `F<key>:<value>` builds one from a key and packs it, `G<hex>` decodes a
    whole VALGET payload.  Every operation sees the table as it is at that moment. -/
def runKeyTab (ops : String) : String :=
  let step (acc : List (Nat × String × Bool) × List String) (op : String) : List (Nat × String × Bool) × List String :=
    let (tbl, out) := acc
    match (match op.toList with | 'W' :: r => 'T' :: r | l => l) with      -- W: the same change by installing a new table object
    | 'T' :: r =>
        (match (String.mk r).splitOn ":" with
         | [k, "-"] => (tbl.filter (fun e => e.1 != k.toNat!), out)
         | [k, v] => ((k.toNat!, "user", v == "1") :: tbl.filter (fun e => e.1 != k.toNat!), out)
         | _ => (tbl, out ++ ["bad-op"]))
    | 'U' :: h =>
        (tbl, out ++ [match @CfgItem.unpack ⟨tbl⟩ (parseHex (String.mk h)) with
          | .ok (c, n) => s!"{showItem c},n={n}"
          | .error e => "EXC:" ++ showExc e])
    | 'F' :: r =>
        (match (String.mk r).splitOn ":" with
         | [k, v] => (tbl, out ++ [match @CfgItem.fromKey ⟨tbl⟩ k.toNat! (parseInt v) with
            | .ok c => (match c.pack with | .ok bs => showItem c ++ "," ++ toHex bs | .error e => showItem c ++ ",EXC:" ++ showExc e)
            | .error e => "EXC:" ++ showExc e])
         | _ => (tbl, out ++ ["bad-op"]))
    | 'G' :: h =>
        (tbl, out ++ [match @valgetDecode ⟨tbl⟩ (parseHex (String.mk h)) with
          | .ok (_, _, _, items) => "/".intercalate (items.map showItem)
          | .error e => "EXC:" ++ showExc e])
    | _ => (tbl, out ++ ["bad-op"])
  " ".intercalate ((ops.splitOn ";").foldl step (Gen.publishedKeys, [])).2

/-- `gnss|<op>|<system>|<blocks: id:flags,…>` -/
def runGnss (op sys blocks : String) : String :=
  let bl : List GnssBlock := if blocks.isEmpty then [] else (blocks.splitOn ",").map fun e =>
    match e.splitOn ":" with
    | [a, b] => ⟨a.toNat!, 0, 0, b.toNat!⟩
    | _ => ⟨0, 0, 0, 0⟩
  let r := match op with
    | "enable" => enableGnss bl sys.toNat!
    | "disable" => disableGnss bl sys.toNat!
    | "gps_glonass" => gpsGlonass bl
    | _ => gpsGalileoBeidou bl
  String.intercalate "," (r.map fun b => s!"{b.gnssId}:{b.flags}")

/-- `render|<item class>|<value>|<derived-from>` -/
def runRender (cls v d : String) : String :=
  match Ubx.Render.render (Ubx.Render.kindOf cls) v.toNat! d.toNat! with
  | .ok s => s
  | .error e => "EXC:" ++ showExc e

/-- `scan|<interval ticks>|<dt:byte or dt:->,…>` (dt in ticks; after the script reads time out after 100 ticks) -/
def runScan (interval script : String) : String :=
  let evs : List (Nat × Option Nat) := if script.isEmpty then [] else (script.splitOn ",").map fun e =>
    match e.splitOn ":" with
    | [d, "-"] => (d.toNat!, none)
    | [d, b] => (d.toNat!, some b.toNat!)
    | _ => (1, none)
  let env : Ubx.Tty.Env := { rd := fun j => evs.getD j (100, none) }
  let (r, s) := Ubx.Tty.scan env 0 interval.toNat!
  s!"{r} t={s.now} reads={s.j}"

/-- `scanseq|<bytes the request-loop parser saw before>|<interval>~<script>/…`: `scan()` uses parsers of its own, so the
    scans of a sequence are independent of each other and of the request loop's parser -/
def runScanSeq (scans : String) : String :=
  " ".intercalate ((scans.splitOn "/").map fun sc =>
    match sc.splitOn "~" with
    | [i, s] => ((runScan i s).replace " " ",")
    | _ => "bad-scan")

instance : Inhabited Ubx.Gpsd.Json := ⟨.null⟩


/-- tiny JSON value syntax for the driver: n | t | f | 0 | s<hex> | a(<v>;<v>…) | o(<hexkey>=<v>;…) — parsed by a
    recursive-descent reader over a token list -/
partial def parseJ (ts : List String) : Ubx.Gpsd.Json × List String :=
  match ts with
  | "n" :: r => (.null, r)
  | "t" :: r => (.bool true, r)
  | "f" :: r => (.bool false, r)
  | "0" :: r => (.num, r)
  | "a(" :: r =>
      let rec items (acc : List Ubx.Gpsd.Json) (ts : List String) : List Ubx.Gpsd.Json × List String :=
        match ts with
        | ")" :: r => (acc.reverse, r)
        | [] => (acc.reverse, [])
        | _ => let (v, r) := parseJ ts; items (v :: acc) r
      let (xs, r') := items [] r
      (.arr xs, r')
  | "o(" :: r =>
      let rec kvs (acc : List (String × Ubx.Gpsd.Json)) (ts : List String) : List (String × Ubx.Gpsd.Json) × List String :=
        match ts with
        | ")" :: r => (acc.reverse, r)
        | [] => (acc.reverse, [])
        | k :: r => let (v, r') := parseJ r; kvs ((String.mk ((parseHex k).map Char.ofNat), v) :: acc) r'
      let (xs, r') := kvs [] r
      (.obj xs, r')
  | t :: r => if t.startsWith "s" then (.str (String.mk ((parseHex (String.mk (t.toList.drop 1))).map Char.ofNat)), r) else (.null, r)
  | [] => (.null, [])

/-- `gpsd|<requested hex or ->|<chunk>/<chunk>…` chunk: `U` (undecodable) or lines `;`-separated: `X` notJson (`B`, `b`: a number of more than 4300 digits, which `json.loads` refuses), `D` tooDeep,
    or a JSON value as space-separated tokens -/
def runGpsd (req chunks : String) : String :=
  let name : Option String := if req == "-" then none else some (String.mk ((parseHex req).map Char.ofNat))
  let parseLineTok (l : String) : Ubx.Gpsd.Line :=
    if l == "X" || l == "B" || l == "b" then .notJson else if l == "D" then .tooDeep else .value (parseJ (l.splitOn " ")).1
  let step (acc : Except Exc Ubx.Gpsd.State × List String) (c : String) : Except Exc Ubx.Gpsd.State × List String :=
    match acc.1 with
    | .error _ => acc
    | .ok st =>
      let ch : Ubx.Gpsd.Chunk := if c == "U" then .undecodable else .lines (if c.isEmpty then [] else (c.splitOn ";").map parseLineTok)
      match Ubx.Gpsd.parseChunk st ch with
      | .error e => (.error e, acc.2 ++ ["EXC:" ++ showExc e])
      | .ok st' => (.ok st', acc.2 ++ [s!"{st'.selected.getD "None"},{st'.enabled},{st'.release.getD "None"}"])
  let (_, out) := (chunks.splitOn "/").foldl step (.ok (Ubx.Gpsd.State.init name), [])
  String.intercalate " " out

/-- `gpsdsetup|<requested>|<chunk>/<chunk>…|<data hex>`: `_enable()` reads chunk after chunk until one leaves the connection
    ready; `setup()` then fixes the command header from the selected device; one command is sent -/
def runGpsdSetup (req chunks data : String) : String :=
  let name : Option String := if req == "-" then none else some (String.mk ((parseHex req).map Char.ofNat))
  let parseLineTok (l : String) : Ubx.Gpsd.Line :=
    if l == "X" || l == "B" || l == "b" then .notJson else if l == "D" then .tooDeep else .value (parseJ (l.splitOn " ")).1
  let toChunk (c : String) : Ubx.Gpsd.Chunk :=
    if c == "U" then .undecodable else .lines (if c.isEmpty then [] else (c.splitOn ";").map parseLineTok)
  match Ubx.Gpsd.setup name ((chunks.splitOn "/").map toChunk) with
  | .error e => "EXC:" ++ showExc e
  | .ok none => "not-ready"
  | .ok (some (st, hdr)) =>
      s!"selected={st.selected.getD "None"} cmd={toHex (Ubx.Gpsd.commandAfterSetup hdr (parseHex data))}"

/-- `frame|cls|id|<payload hex>` → to_bytes() twice; `framegen|cls|id|len|seed|mode` the same on a generated payload -/
def runFrame (c i pl : String) : String :=
  let f : Frame := { cls := c.toNat!, id := i.toNat!, data := parseHex pl }
  let (f1, b1) := f.toBytes
  let (_, b2) := f1.toBytes
  toHex b1 ++ " " ++ (if b1 == b2 && f1.data == f.data then "same" else "DIFF")
/-- `frameseq|cls|id|<mode>:<hex>;…`: ONE frame object whose payload is replaced step by step (the mode says how the
    harness does it on the real object: new bytearray or in place), serialised after every step -/
def runFrameSeq (c i steps : String) : String :=
  let f0 : Frame := { cls := c.toNat!, id := i.toNat! }
  let (_, outs) := (steps.splitOn ";").foldl (fun (acc : Frame × List String) st =>
    let pl := match st.splitOn ":" with | [_, h] => parseHex h | _ => []
    let (f1, b) := ({ acc.1 with data := pl } : Frame).toBytes
    (f1, acc.2 ++ [toHex b] ++ (if f1.data == pl then [] else ["DATA-CHANGED"]))) (f0, [])
  " ".intercalate outs
/-- `framefam|<parent>:<cls>:<id>:<hex>;…`: frames of different classes of one family; a class's serialisation depends on
    its own class/id and payload only (parent `B`: an instance of `UbxFrame` itself, class/id 0/0) -/
def runFrameFam (steps : String) : String :=
  " ".intercalate ((steps.splitOn ";").map fun st =>
    match st.splitOn ":" with
    | [par, c, i, h] =>
        let f : Frame := if par == "B" then { cls := 0, id := 0, data := parseHex h } else { cls := c.toNat!, id := i.toNat!, data := parseHex h }
        toHex f.toBytes.2
    | _ => "bad-step")
/-- `framecls|<Class>|<payload hex>`: a frame object of a real message class whose `data` was assigned directly -/
def runFrameCls (cls pl : String) : String :=
  match Gen.frameClasses.find? fun e => e.1 == cls with
  | none => "no-class"
  | some e =>
    let f : Frame := { cls := e.2.1, id := e.2.2.1, data := parseHex pl }
    let (f1, b1) := f.toBytes
    let (_, b2) := f1.toBytes
    toHex b1 ++ " " ++ (if b1 == b2 && f1.data == f.data then "same" else "DIFF")
def runFrameGen (c i len seed mode : String) : String :=
  let f : Frame := { cls := c.toNat!, id := i.toNat!, data := lcgPayload len.toNat! seed.toNat! mode.toNat! }
  let (f1, b1) := f.toBytes
  let (_, b2) := f1.toBytes
  summary b1 ++ " " ++ (if b1 == b2 && f1.data == f.data then "same" else "DIFF")
/-- `ck|a|b` → next states for all 256 bytes from state (a, b); `ckrow|a` digest over all b and bytes;
    `ckm|a|b` the pairs `matches` accepts, and `reset`; `ckseq|hex` value after reset + adds -/
def runCk (a b : String) : String :=
  let c : Ck := ⟨a.toNat!, b.toNat!⟩
  toHex ((List.range 256).flatMap fun x => let n := c.add x; [n.a, n.b])
def runCkRow (a : String) : String :=
  let a := a.toNat!
  toString ((List.range 256).foldl (fun h b => (List.range 256).foldl (fun h x =>
    let n := (⟨a, b⟩ : Ck).add x; ((h * 31 + n.a) * 31 + n.b) % 4294967296) h) 0)
def runCkM (a b : String) : String :=
  let c : Ck := ⟨a.toNat!, b.toNat!⟩
  let a := a.toNat!
  let b := b.toNat!
  let xs := (List.range 256 ++ [256 + a, 512 + a, (a <<< 8) ||| b, 65536 + a]).eraseDups      -- also arguments that are no bytes
  let ys := (List.range 256 ++ [256 + b, 512 + b, (a <<< 8) ||| b, 65536 + b]).eraseDups
  let hits := xs.flatMap fun x => (ys.filter fun y => c.matches x y).map fun y => s!"{x}:{y}"
  ",".intercalate hits ++ s!" reset={c.reset.value.1}:{c.reset.value.2}"
/-- `ckgen|len|seed|mode`: value after a generated sequence, then `reset()` and three more bytes compared with a new object -/
def runCkGen (len seed mode : String) : String :=
  let c := Ck.zero.addAll (lcgPayload len.toNat! seed.toNat! mode.toNat!)
  s!"{c.value.1},{c.value.2} {c.reset.addAll [1, 2, 3] == Ck.zero.addAll [1, 2, 3]}"
/-- `ckil|<ops>`: several checksum objects alive at once (N new, A<k>:<hex> add, R<k> reset, V<k> value) -/
def runCkIl (ops : String) : String :=
  let (_, out) := (ops.splitOn ";").foldl (fun (acc : List Ck × List String) op =>
    let (objs, out) := acc
    match op.toList with
    | ['N'] => (objs ++ [Ck.zero], out)
    | 'C' :: r =>       -- a copy of object k is one more object with the same sums
        (match (String.ofList r).splitOn ":" with
         | [k, _] => (objs ++ [objs.getD k.toNat! Ck.zero], out)
         | _ => acc)
    | 'A' :: r =>
        (match (String.ofList r).splitOn ":" with
         | [k, h] => (objs.modify k.toNat! (fun c => c.addAll (parseHex h)), out)
         | _ => acc)
    | 'R' :: r => (objs.modify (String.ofList r).toNat! (fun c => c.reset), out)
    | 'V' :: r => let c := objs.getD (String.ofList r).toNat! Ck.zero; (objs, out ++ [s!"{c.value.1},{c.value.2}"])
    | _ => acc) ([], [])
  " ".intercalate out
def runCkSeq (h : String) : String :=
  let c := ((Ck.zero.add 0x55).reset).addAll (parseHex h)
  s!"{c.value.1},{c.value.2} {c.matches c.value.1 c.value.2}"

/-- `tty|transmit|<write result or ->|<hex>` and `tty|recover|<baud>` -/
def runTty (f : List String) : String :=
  match f with
  | ["transmit", w, h] =>
      let data := parseHex h
      let written := if w == "-" then data.length else w.toNat!
      s!"{Ubx.Tty.transmit written data} wrote=exact"
  | ["recover", _ctor, baud] =>
      let p := Ubx.Tty.recover { isOpen := true, baud := baud.toNat! }
      s!"open={p.isOpen} baud={p.baud} log={",".intercalate (p.log.map fun e => toString e.2)}"
  | _ => "bad-line"

/-- `gpsdtx|<device hex>|<data hex>|<reply hex or E<failing socket call>>` -/
def runGpsdTx (dev data reply : String) : String :=
  let cmd := toHex (Ubx.Gpsd.command (parseHex dev) (parseHex data))
  let reply := if reply.startsWith "T" then "E" ++ String.ofList (reply.toList.drop 1) else reply   -- a time-out is a socket error
  if !reply.startsWith "E" && (parseHex reply).any (· ≥ 0xF8) then "EXC:UnicodeDecodeError"    -- `data.decode()` of bytes that are no text
  else if reply.startsWith "E" then
    let op := String.ofList (reply.toList.drop 1)
    if op == "connect" || op == "settimeout" then "cmd=none ok=false"
    else if op == "sendall" || op == "recv" then s!"cmd={cmd} ok={Ubx.Gpsd.transmitOk .socketError}"
    else s!"cmd={cmd} ok={Ubx.Gpsd.transmitOk (.data [79, 75])}"     -- the reply "OK" was read before the failing call
  else s!"cmd={cmd} ok={Ubx.Gpsd.transmitOk (.data (parseHex reply))}"

/-- `cid|c:i`: `UbxCID` equality, membership, hash and dictionary lookup against the grid the harness uses — in the model
    a class/id is a pair with decidable equality -/
def cidGrid : List Cid :=
  (([0, 1, 2, 3, 4, 5, 6, 8, 0x0a, 0x0c, 0x10, 0x13, 0x14, 0x28, 0x62, 0xb5, 0xff] : List Nat).flatMap fun c =>
    ([0, 1, 2, 3, 4, 7, 8, 9, 0x10, 0x14, 0x3e, 0x60, 0x62, 0xff] : List Nat).map fun i => ⟨c, i⟩)
  -- numbers that do not fit a byte (a 16-bit message number not masked): they are what they are, never another class/id
  ++ [⟨5, 0x501⟩, ⟨0x105, 1⟩, ⟨1, 0x407⟩, ⟨0, 0x100⟩, ⟨1, 0x100⟩, ⟨0x100, 0⟩, ⟨5, 0x10001⟩, ⟨0x605, 0x801⟩]
def runCid (arg : String) : String :=
  let a := parseCid arg
  let eqs := ",".intercalate ((cidGrid.filter (· == a)).map fun b => s!"{b.cls}:{b.id}")
  let ins := ",".intercalate ((cidGrid.filter fun b => [b].contains a).map fun b => s!"{b.cls}:{b.id}")
  let got := match cidGrid.find? (· == a) with | some b => s!"{b.cls}:{b.id}" | none => "missing"
  s!"eq={eqs} ne={eqs} in={ins} hashdiff=- dict={got} size={cidGrid.eraseDups.length} same=True fields={a.cls}:{a.id}"

def handle (line : String) : String :=
  match line.trim.splitOn "|" with
  | ["ubx", ops] => runUbx ops
  | ["ubxbulk", n, m, ops] => runUbxBulk n.toNat! m.toNat! ops
  | "ubxil" :: _ :: seqs => " ## ".intercalate (seqs.map runUbx)      -- values do not share state: each object as if alone
  | "nmeail" :: _ :: seqs => " ## ".intercalate (seqs.map runNmea)
  | ["cid", a] => runCid a
  | ["nmea", ops] => runNmea ops
  | "srv" :: rest => runSrv rest
  | ["specscan", h] => runSpecScan h
  | "seq" :: rest => runSeq rest
  | ["fields", c, pl] => runFields c pl
  | ["fieldscopy", c, pl1, pl2, _] => runFields c pl2 ++ " ## " ++ runFields c pl1      -- a frame and its copy are two values
  | ["ch", n, d] => runCh n.toNat! (parseHex d)
  | ["keytab", ops] => runKeyTab ops
  | ["subitem", _, f, v] => runSubItem f (parseInt v)
  | ["subitem", _, f, v, _] => runSubItem f (parseInt v)      -- (what else the user's class defines is not the codec's business)
  | ["assign", c, pl, f, v] => runAssign c pl f v
  | ["assign", c, pl, f, v, _] => runAssign c pl f v
  | "keypack" :: rest => runKeyPack rest
  | "keystr" :: rest => runKeyStr rest
  | ["keyunpack", h] => runKeyUnpack h
  | ["keyseq", ops] => runKeySeq ops
  | ["fromkey", k, v] => runFromKey k v
  | ["valset", items] => runValset items
  | ["valgetpoll", keys] => runValgetPoll keys
  | ["valget", pl] => runValget pl
  | ["valgetrt", pl] => runValgetRt pl ""
  | ["valgetrt", pl, e] => runValgetRt pl e
  | ["gnss", op, sys, bl] => runGnss op sys bl
  | ["gnss", op, sys, bl, _] => runGnss op sys bl
  | "helper" :: rest => runHelper rest
  | ["render", c, v, d] => runRender c v d
  | ["render", c, v, d, _] => runRender c v d
  | ["str", c, pl, e] => runStr c pl e
  | ["strval", k, a] => runStrVal k a
  | ["frame", c, i, pl] => runFrame c i pl
  | ["framegen", c, i, l, s, m] => runFrameGen c i l s m
  | ["frameseq", c, i, st] => runFrameSeq c i st
  | ["framefam", st] => runFrameFam st
  | ["framecls", c, pl] => runFrameCls c pl
  | ["framethreads", _, _, _, _] => "bad=0"     -- frames are values in the model: nothing is shared between them
  | ["ck", a, b] => runCk a b
  | ["ckrow", a] => runCkRow a
  | ["ckm", a, b] => runCkM a b
  | ["ckseq", h] => runCkSeq h
  | ["ckil", ops] => runCkIl ops
  | ["ckgen", l, sd, m] => runCkGen l sd m
  | ["scan", i, sc] => runScan i sc
  | ["scanseq", _, scans] => runScanSeq scans
  | ["gpsd", r, c] => runGpsd r c
  | "tty" :: rest => runTty rest
  | ["gpsdtx", d, x, r] => runGpsdTx d x r
  | ["gpsdsetup", r, c, d] => runGpsdSetup r c d
  | _ => "bad-line"

def main : IO Unit := do loop handle (← IO.getStdin) (← IO.getStdout)

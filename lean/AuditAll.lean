import UbxModel
#print axioms C04.poll_returns
#print axioms C04.setMga_returns
#print axioms C10.poll_like_fresh
